package c01world

import (
	"fmt"
	"math/big"

	"verifsim/worlds/chainkit"

	"github.com/youchainhq/go-youchain/common"
	"github.com/youchainhq/go-youchain/consensus/ucon"
	"github.com/youchainhq/go-youchain/core/types"
	"github.com/youchainhq/go-youchain/crypto"
	"github.com/youchainhq/go-youchain/params"
)

// extractIndex returns the round index of the vote section of a sealed header.
func extractIndex(h *types.Header) (uint32, error) {
	uv, err := ucon.ExtractUconValidators(h, params.LookBackPos)
	if err != nil {
		return 0, err
	}
	return uv.RoundIndex, nil
}

// ---- vote-level forgeries: S (honest votes below the quorum) + illegitimate compensation ----

// cstate is a vote section under construction.
type cstate struct {
	es          []entry
	removed     []*val // entitled voters whose honest vote was removed from S
	used        map[*val]bool
	aggDistinct bool
	fatal       bool // the section contains something that makes the verifier bail out early
	notes       []string
}

func (st *cstate) claimed() uint64 { return weightOf(st.es, false) }

// vforger adds illegitimate entries worth up to `need` claimed weight.
type vforger struct {
	name string
	make func(fx *fixture, st *cstate, need uint64) bool // false: not applicable in this run
}

func (fx *fixture) honestEntryOf(v *val) (entry, bool) {
	for _, e := range fx.honestEntries() {
		if e.v == v {
			return e, true
		}
	}
	return entry{}, false
}

// perRemoved builds a forger that replaces removed honest votes by forged ones.
func perRemoved(name, tag string, forge func(fx *fixture, v *val) (entry, bool)) vforger {
	return vforger{name: name, make: func(fx *fixture, st *cstate, need uint64) bool {
		var got uint64
		n := 0
		for _, v := range st.removed {
			if got >= need {
				break
			}
			if st.used[v] {
				continue
			}
			e, ok := forge(fx, v)
			if !ok {
				continue
			}
			e.legit, e.tag = false, tag
			st.used[v] = true
			st.es = append(st.es, e)
			got += uint64(e.w)
			n++
		}
		return n > 0
	}}
}

// fromPool builds a forger that adds votes of members that are not entitled to vote.
func fromPool(name, tag string, in func(v *val) bool) vforger {
	return vforger{name: name, make: func(fx *fixture, st *cstate, need uint64) bool {
		var got uint64
		n := 0
		idx := fx.ctx.Index
		for _, v := range fx.vals {
			if got >= need {
				break
			}
			if v.rec == nil || !in(v) || st.used[v] {
				continue
			}
			// the holder of such a key computes the sortition exactly like an entitled voter:
			// own stake against the ONLINE CHAMBER stake (sortition_verifier.go:92-107)
			e := fx.mkVote(v, v.key, v.rec.Stake, fx.ctx.TotalStake, fx.ctx.Seed, idx, stepPrecommit, fx.T, fx.honest.Hash(), fx.N, idx)
			if e.w == 0 {
				continue
			}
			e.tag = tag
			st.used[v] = true
			st.es = append(st.es, e)
			got += uint64(e.w)
			n++
		}
		return n > 0
	}}
}

func (fx *fixture) otherRound() (*chainkit.Ctx, common.Hash, string) {
	if fx.N >= 2 && !fx.r.C.Chance("other-round-is-next", 1, 3) {
		pcd := fx.parentIndex()
		octx, err := chainkit.NewCtx(fx.w.B.Chain, fx.N-1, pcd)
		if err != nil {
			panic(err)
		}
		return octx, fx.parent.Hash(), fmt.Sprintf("precommits of round %d (index %d) for the parent block", fx.N-1, pcd)
	}
	octx, err := chainkit.NewCtx(fx.w.B.Chain, fx.N+1, fx.ctx.Index)
	if err != nil {
		panic(err)
	}
	return octx, fx.honest.Hash(), fmt.Sprintf("precommit credentials of round %d for this hash", fx.N+1)
}

func (fx *fixture) parentIndex() uint32 {
	h := fx.parent.Header()
	if h.Number.Sign() == 0 {
		return 1
	}
	uv, err := extractIndex(h)
	if err != nil {
		return 1
	}
	return uv
}

var vforgers = map[string]vforger{
	"duplicate-vote": {name: "duplicate-vote", make: func(fx *fixture, st *cstate, need uint64) bool {
		hi := -1
		for i, e := range st.es {
			if e.legit && (hi < 0 || e.w > st.es[hi].w) {
				hi = i
			}
		}
		if hi < 0 || st.es[hi].w == 0 {
			return false
		}
		var got uint64
		for n := 0; got < need && n < 24; n++ {
			d := st.es[hi]
			d.tag = "dup"
			st.es = append(st.es, d) // stays labelled legit: legitimate weight counts distinct signers once
			got += uint64(d.w)
		}
		st.aggDistinct = fx.r.C.Chance("dup-aggregate-once-per-signer", 1, 2)
		return true
	}},
	"same-signer-two-proofs": {name: "same-signer-two-proofs", make: func(fx *fixture, st *cstate, need uint64) bool {
		var got uint64
		n := 0
		idx := fx.ctx.Index
		base := append([]entry(nil), st.es...)
		for round := 0; round < 6 && got < need; round++ {
			for _, e := range base {
				if got >= need {
					break
				}
				if !e.legit || e.tag != "honest" {
					continue
				}
				// VRF proofs are randomised (nonce from crypto/rand): the same signer can present
				// a second, byte-different, equally valid proof
				e2 := fx.mkVote(e.v, e.v.key, e.v.rec.Stake, fx.ctx.TotalStake, fx.ctx.Seed, idx, stepPrecommit, fx.T, fx.honest.Hash(), fx.N, idx)
				e2.legit, e2.tag = true, "second-proof"
				st.es = append(st.es, e2)
				got += uint64(e2.w)
				n++
			}
		}
		st.aggDistinct = fx.r.C.Chance("dup-aggregate-once-per-signer", 1, 2)
		return n > 0
	}},
	"other-round-vote": {name: "other-round-vote", make: func(fx *fixture, st *cstate, need uint64) bool {
		octx, ohash, what := fx.otherRound()
		f := perRemoved("other-round-vote", "other-round", func(fx *fixture, v *val) (entry, bool) {
			rec := chainkit.StakeOf(octx, v.key)
			if rec == nil {
				return entry{}, false
			}
			e := fx.mkVote(v, v.key, rec.Stake, octx.TotalStake, octx.Seed, octx.Index, stepPrecommit, fx.T, ohash, octx.Round, octx.Index)
			oi, _ := octx.Vals.GetIndex(v.key.Addr)
			e.sv.VoterIdx = uint32(oi)
			return e, e.w > 0
		})
		st.notes = append(st.notes, what)
		return f.make(fx, st, need)
	}},
	"other-index-vote": perRemoved("other-index-vote", "other-index", func(fx *fixture, v *val) (entry, bool) {
		oi := fx.ctx.Index + 1
		if fx.ctx.Index > 1 && fx.r.C.Chance("other-index-is-earlier", 1, 3) {
			oi = fx.ctx.Index - 1
		}
		e := fx.mkVote(v, v.key, v.rec.Stake, fx.ctx.TotalStake, fx.ctx.Seed, oi, stepPrecommit, fx.T, fx.honest.Hash(), fx.N, oi)
		return e, e.w > 0
	}),
	"wrong-step-prevote": perRemoved("wrong-step-prevote", "prevote", func(fx *fixture, v *val) (entry, bool) {
		// the signed payload hash||round||index does not name the step: a prevote signature IS a
		// valid precommit signature; only the sortition proof binds the step
		e := fx.mkVote(v, v.key, v.rec.Stake, fx.ctx.TotalStake, fx.ctx.Seed, fx.ctx.Index, stepPrevote, fx.T, fx.honest.Hash(), fx.N, fx.ctx.Index)
		return e, e.w > 0
	}),
	"wrong-step-nextindex": perRemoved("wrong-step-nextindex", "nextindex", func(fx *fixture, v *val) (entry, bool) {
		e := fx.mkVote(v, v.key, v.rec.Stake, fx.ctx.TotalStake, fx.ctx.Seed, fx.ctx.Index, stepNextIndex, fx.T, fx.honest.Hash(), fx.N, fx.ctx.Index)
		return e, e.w > 0
	}),
	"wrong-step-certificate": perRemoved("wrong-step-certificate", "certificate", func(fx *fixture, v *val) (entry, bool) {
		e := fx.mkVote(v, v.key, v.rec.Stake, fx.ctx.TotalStake, fx.ctx.Seed, fx.ctx.Index, stepCert, fx.T, fx.honest.Hash(), fx.N, fx.ctx.Index)
		return e, e.w > 0
	}),
	"wrong-block-vote": perRemoved("wrong-block-vote", "other-block", func(fx *fixture, v *val) (entry, bool) {
		other := crypto.Keccak256Hash(fx.honest.Hash().Bytes(), []byte("competing proposal"))
		e := fx.mkVote(v, v.key, v.rec.Stake, fx.ctx.TotalStake, fx.ctx.Seed, fx.ctx.Index, stepPrecommit, fx.T, other, fx.N, fx.ctx.Index)
		return e, e.w > 0
	}),
	"voter-index-out-of-range": {name: "voter-index-out-of-range", make: func(fx *fixture, st *cstate, need uint64) bool {
		for _, v := range st.removed {
			e, ok := fx.honestEntryOf(v)
			if !ok || st.used[v] {
				continue
			}
			n := uint32(fx.ctx.Vals.Len())
			e.sv.VoterIdx = []uint32{n, n + v.idx, 0x7fffffff, 0xffffffff}[fx.r.C.Intn("bad-index", 4)]
			e.legit, e.tag = false, fmt.Sprintf("idx%d", e.sv.VoterIdx)
			st.used[v] = true
			st.es = append(st.es, e)
			st.fatal = true
			return true
		}
		return false
	}},
	"voter-index-of-other": {name: "voter-index-of-other", make: func(fx *fixture, st *cstate, need uint64) bool {
		inS := map[*val]bool{}
		for _, e := range st.es {
			inS[e.v] = true
		}
		var got uint64
		n := 0
		for _, x := range st.removed {
			if got >= need {
				break
			}
			e, ok := fx.honestEntryOf(x)
			if !ok || st.used[x] {
				continue
			}
			var y *val
			for _, c := range fx.vals {
				if c != x && c.rec != nil && !inS[c] && !st.used[c] {
					y = c
					break
				}
			}
			if y == nil {
				continue
			}
			e.sv.VoterIdx = y.idx
			e.legit, e.tag = false, "as-"+y.name()
			st.used[x], st.used[y] = true, true
			st.es = append(st.es, e)
			got += uint64(e.w)
			n++
		}
		return n > 0
	}},
	// borrowed-proof: an entitled voter whose own vote was removed is listed with the sortition
	// PROOF OF ANOTHER listed voter (byte-identical, so that it has just been verified under its
	// owner's key) and the seat count that proof's output would give for the borrower's stake;
	// the signature is the borrower's own. A verifier that binds the proof to the voter's key
	// counts nothing for it.
	"borrowed-proof": {name: "borrowed-proof", make: func(fx *fixture, st *cstate, need uint64) bool {
		var lender *entry
		for i := range st.es {
			if st.es[i].legit && st.es[i].v != nil && st.es[i].v.key != nil {
				lender = &st.es[i]
				break
			}
		}
		if lender == nil {
			return false
		}
		var got uint64
		n := 0
		for _, y := range st.removed {
			if got >= need {
				break
			}
			if st.used[y] || y == lender.v || y.key == nil || y.rec == nil {
				continue
			}
			// seats the lender's VRF output gives for the borrower's stake
			_, _, j := ucon.VrfSortition(lender.v.key.VrfSk, fx.ctx.Seed, fx.ctx.Index, stepPrecommit, fx.T, y.rec.Stake, fx.ctx.TotalStake)
			if j == 0 {
				continue
			}
			sig := y.key.BlsSk.Sign(chainkit.VotePayload(fx.honest.Hash(), fx.N, fx.ctx.Index))
			e := entry{v: y, sv: ucon.SingleVote{VoterIdx: y.idx, Votes: j, Proof: append([]byte(nil), lender.sv.Proof...)}, sig: sig, w: j}
			e.legit, e.tag = false, "proof-of-"+lender.v.name()
			st.used[y] = true
			st.es = append(st.es, e)
			got += uint64(j)
			n++
		}
		return n > 0
	}},
	"outsider-key": {name: "outsider-key", make: func(fx *fixture, st *cstate, need uint64) bool {
		var got uint64
		n := 0
		for i, y := range st.removed {
			if got >= need || i >= len(fx.outside) {
				break
			}
			if st.used[y] {
				continue
			}
			o := fx.outside[i]
			e := fx.mkVote(y, o, y.rec.Stake, fx.ctx.TotalStake, fx.ctx.Seed, fx.ctx.Index, stepPrecommit, fx.T, fx.honest.Hash(), fx.N, fx.ctx.Index)
			if e.w == 0 {
				e.w, e.sv.Votes = uint32(need), uint32(need)
			}
			e.legit, e.tag = false, "outsider-"+o.Name()
			st.used[y] = true
			st.es = append(st.es, e)
			got += uint64(e.w)
			n++
		}
		return n > 0
	}},
	"offline-signer": fromPool("offline-signer", "offline", func(v *val) bool { return v.chamber && !v.online }),
	"house-signer":   fromPool("house-signer", "house", func(v *val) bool { return !v.chamber }),
	"inflated-weight": {name: "inflated-weight", make: func(fx *fixture, st *cstate, need uint64) bool {
		var cand []int
		for i, e := range st.es {
			if e.legit && e.tag == "honest" {
				cand = append(cand, i)
			}
		}
		if len(cand) == 0 {
			return false
		}
		i := cand[fx.r.C.Intn("inflate-which", len(cand))]
		st.es[i].w += uint32(need)
		st.es[i].sv.Votes = st.es[i].w
		st.es[i].legit, st.es[i].tag = false, "inflated"
		return true
	}},
	"zero-seat-voter": {name: "zero-seat-voter", make: func(fx *fixture, st *cstate, need uint64) bool {
		w, _ := fx.seatsAt(fx.ctx.Index)
		for i, v := range fx.vals {
			if !v.voter() || w[i] != 0 || st.used[v] {
				continue
			}
			e := fx.mkVote(v, v.key, v.rec.Stake, fx.ctx.TotalStake, fx.ctx.Seed, fx.ctx.Index, stepPrecommit, fx.T, fx.honest.Hash(), fx.N, fx.ctx.Index)
			e.w, e.sv.Votes = uint32(need), uint32(need)
			e.legit, e.tag = false, "zero-seat"
			st.used[v] = true
			st.es = append(st.es, e)
			return true
		}
		return false
	}},
}

var vforgerOrder = []string{"duplicate-vote", "same-signer-two-proofs", "other-round-vote", "other-index-vote", "wrong-step-prevote",
	"wrong-step-nextindex", "wrong-step-certificate", "wrong-block-vote", "voter-index-out-of-range", "voter-index-of-other",
	"borrowed-proof", "outsider-key", "offline-signer", "house-signer", "inflated-weight", "zero-seat-voter"}

// comboOrder are the vote-level classes combined pairwise.
var comboOrder = []string{"duplicate-vote", "same-signer-two-proofs", "other-round-vote", "other-index-vote", "wrong-step-prevote",
	"wrong-block-vote", "voter-index-of-other", "borrowed-proof", "offline-signer", "house-signer", "inflated-weight"}

func (fx *fixture) newState(mode int) *cstate {
	S, removed := fx.subQuorum(mode)
	return &cstate{es: S, removed: removed, used: map[*val]bool{}}
}

func (fx *fixture) finishVoteCase(kind string, st *cstate, why string) *fcase {
	agg := aggregate(st.es)
	an := "aggregate of every listed entry's signature"
	if st.aggDistinct {
		agg = aggregateDistinct(st.es)
		an = "aggregate with one signature per distinct signer"
	}
	for _, n := range st.notes {
		why += "; " + n
	}
	c := fx.sameHashCase(kind, fx.ctx.Index, st.es, agg, false, why+"; "+an)
	if c.legit >= fx.Q {
		panic("c01world: forgery " + kind + " has a legitimate quorum")
	}
	return c
}

func (fx *fixture) voteCase(name string) []*fcase {
	f := vforgers[name]
	// which honest votes stay: the heaviest set below the quorum (boring), a seeded removal
	// order, or none at all
	st := fx.newState([]int{0, 1, 3}[fx.r.C.Weighted("kept-votes", []int{3, 1, 1})])
	need := fx.Q - st.claimed()
	if !f.make(fx, st, need) {
		return nil
	}
	return []*fcase{fx.finishVoteCase(name, st, fmt.Sprintf("honest votes removed until legitimate weight %d < quorum %d (removed %s), compensated with class %s", weightOf(st.es, true), fx.Q, names(st.removed), name))}
}

func (fx *fixture) comboCase() []*fcase {
	r := fx.r
	a := r.C.Intn("combo-a", len(comboOrder))
	b := r.C.Intn("combo-b", len(comboOrder)-1)
	if b >= a {
		b++
	}
	if a > b {
		a, b = b, a
	}
	na, nb := comboOrder[a], comboOrder[b]
	// keep little of the honest quorum so that both classes are needed
	st := fx.newState(2 + r.C.Intn("combo-keep-nothing", 2))
	need := fx.Q - st.claimed()
	okA := vforgers[na].make(fx, st, (need+1)/2)
	var rest uint64
	if c := st.claimed(); c < fx.Q {
		rest = fx.Q - c
	}
	okB := rest > 0 && vforgers[nb].make(fx, st, rest)
	if !okA || !okB {
		return nil
	}
	c := fx.finishVoteCase("combo", st, fmt.Sprintf("[%s+%s] honest votes removed until legitimate weight below quorum %d (removed %s), compensated with two classes", na, nb, fx.Q, names(st.removed)))
	return []*fcase{c}
}

// ---- aggregate-signature forgeries (listed votes are the full honest set) ----

func (fx *fixture) aggregateCases(which string) []*fcase {
	all := fx.honestEntries()
	idx := fx.ctx.Index
	mark := func(es []entry, covered map[*val]bool, tag string) []entry {
		out := append([]entry(nil), es...)
		for i := range out {
			if !covered[out[i].v] {
				out[i].legit, out[i].tag = false, tag
			}
		}
		return out
	}
	switch which {
	case "aggregate-of-subset":
		S, _ := fx.subQuorum(fx.r.C.Intn("agg-subset-mode", 3))
		cov := map[*val]bool{}
		for _, e := range S {
			cov[e.v] = true
		}
		es := mark(all, cov, "unsigned")
		return []*fcase{fx.sameHashCase(which, idx, es, aggregate(S), false, fmt.Sprintf("every honest vote is listed but the aggregate only covers the signatures of %s (weight %d < quorum %d)", entryNames(S), weightOf(S, true), fx.Q))}
	case "aggregate-garbage":
		var agg []byte
		what := "48 seeded random bytes"
		if fx.r.C.Chance("garbage-is-a-valid-point", 1, 2) {
			s := fx.proposer.key.BlsSk.Sign([]byte("not a vote")).Compress()
			agg, what = s[:], "a well-formed signature of an unrelated message by one key"
		} else {
			agg = fx.r.C.Bytes("garbage", 48)
		}
		return []*fcase{fx.sameHashCase(which, idx, mark(all, nil, "unsigned"), agg, false, "every honest vote is listed, the aggregate signature is "+what)}
	case "aggregate-empty":
		return []*fcase{fx.sameHashCase(which, idx, mark(all, nil, "unsigned"), []byte{}, false, "every honest vote is listed, the aggregate signature is empty")}
	case "aggregate-other-message":
		other := crypto.Keccak256Hash(fx.honest.Hash().Bytes(), []byte("competing proposal"))
		var sigs []entry
		for _, e := range all {
			e.sig = e.v.key.BlsSk.Sign(chainkit.VotePayload(other, fx.N, idx))
			sigs = append(sigs, e)
		}
		return []*fcase{fx.sameHashCase(which, idx, mark(all, nil, "other-msg"), aggregate(sigs), false, "every honest vote is listed, the aggregate is made of the same signers' signatures for another block hash")}
	case "lone-vote-bad-signature":
		// a single voter whose weight alone reaches the quorum (stake concentration), listed
		// alone, with a signature that is not over this header
		var lone *entry
		for i := range all {
			if uint64(all[i].w) >= fx.Q && (lone == nil || all[i].w > lone.w) {
				lone = &all[i]
			}
		}
		if lone == nil {
			return nil
		}
		other := crypto.Keccak256Hash(fx.honest.Hash().Bytes(), []byte("competing proposal"))
		e := *lone
		e.sig = e.v.key.BlsSk.Sign(chainkit.VotePayload(other, fx.N, idx))
		e.legit, e.tag = false, "other-msg"
		return []*fcase{fx.sameHashCase(which, idx, []entry{e}, aggregate([]entry{e}), false, fmt.Sprintf("the single vote of %s (weight %d >= quorum %d) is listed alone; the signature field is its signature for another block hash", e.v.name(), e.w, fx.Q))}
	case "votes-in-house-section":
		es := mark(all, nil, "house-section")
		c := fx.sameHashCase(which, idx, es, aggregate(all), true, "the honest quorum is listed under HouseCommitters/MCAggrSig, ChamberCommitters is empty")
		c.legit = 0
		return []*fcase{c}
	}
	return nil
}

// ---- controls and plain sub-quorums ----

func (fx *fixture) controlHonest() *fcase {
	es := fx.honestEntries()
	return &fcase{kind: "honest", control: true, hdr: fx.honest.Header(), legit: weightOf(es, true), claimed: weightOf(es, false), why: "the honest block as the forge sealed it"}
}

func (fx *fixture) controlSuperQuorum() *fcase {
	all := fx.honestEntries()
	perm := fx.r.C.Perm("superq-order", len(all))
	keep := map[int]bool{}
	for i := range all {
		keep[i] = true
	}
	sum := weightOf(all, false)
	for _, i := range perm {
		if sum-uint64(all[i].w) >= fx.Q {
			keep[i] = false
			sum -= uint64(all[i].w)
		}
	}
	var es []entry
	for i, e := range all {
		if keep[i] {
			es = append(es, e)
		}
	}
	c := fx.sameHashCase("super-quorum-subset", fx.ctx.Index, es, aggregate(es), false, "a minimal subset of the honest votes that still reaches the quorum")
	c.control = true
	return c
}

// boundary finds a round index and a subset of entitled voters whose total precommit weight
// is exactly target (the search space is every subset at the honest index and at up to 24
// other indexes at which an entitled voter wins the proposer lottery). If nothing hits it
// exactly the closest sum on the required side at the honest index is used.
func (fx *fixture) boundary(target uint64, below bool) (idx uint32, members []*val, sum uint64, exact bool) {
	var voters []int
	for i, v := range fx.vals {
		if v.voter() {
			voters = append(voters, i)
		}
	}
	try := func(ix uint32) (int, uint64, bool, int, uint64) {
		w, _ := fx.seatsAt(ix)
		bestMask, bestSum, found := -1, uint64(0), false
		closeMask, closeSum := -1, uint64(0)
		for mask := 0; mask < 1<<uint(len(voters)); mask++ {
			var s uint64
			for b, vi := range voters {
				if mask&(1<<uint(b)) != 0 {
					if w[vi] == 0 {
						s = ^uint64(0)
						break
					}
					s += uint64(w[vi])
				}
			}
			if s == ^uint64(0) {
				continue
			}
			if s == target && !found {
				bestMask, bestSum, found = mask, s, true
			}
			if below {
				if s <= target && (closeMask < 0 || s > closeSum) {
					closeMask, closeSum = mask, s
				}
			} else if s >= target && (closeMask < 0 || s < closeSum) {
				closeMask, closeSum = mask, s
			}
		}
		return bestMask, bestSum, found, closeMask, closeSum
	}
	unmask := func(mask int) []*val {
		var ms []*val
		for b, vi := range voters {
			if mask&(1<<uint(b)) != 0 {
				ms = append(ms, fx.vals[vi])
			}
		}
		return ms
	}
	hi := fx.ctx.Index
	m, s, ok, cm, cs := try(hi)
	if ok {
		return hi, unmask(m), s, true
	}
	for ix := uint32(1); ix <= 24; ix++ {
		if ix == hi || fx.winnerAt(ix, false) == nil {
			continue
		}
		if m, s, ok, _, _ := try(ix); ok {
			return ix, unmask(m), s, true
		}
	}
	if cm < 0 {
		return 0, nil, 0, false
	}
	return hi, unmask(cm), cs, false
}

// atIndex builds an honest-format header for round index idx (a new honest credential of an
// entitled winner if idx is not the honest index) carrying the precommits of `members`.
func (fx *fixture) atIndex(idx uint32, members []*val) (*fcaseParts, bool) {
	in := map[*val]bool{}
	for _, m := range members {
		in[m] = true
	}
	if idx == fx.ctx.Index {
		var es []entry
		for _, e := range fx.honestEntries() {
			if in[e.v] {
				es = append(es, e)
			}
		}
		h := fx.honest.Header()
		h.Validator = section(idx, es, aggregate(es), false)
		return &fcaseParts{hdr: h, es: es, note: "honest header, honest index"}, true
	}
	p := fx.winnerAt(idx, false)
	if p == nil {
		return nil, false
	}
	cd, _ := fx.credential(fx.honestSpec(p, idx))
	h := fx.reheader(cd, p.key.Priv)
	var es []entry
	for _, e := range fx.freshQuorum(idx, h.Hash()) {
		if in[e.v] {
			es = append(es, e)
		}
	}
	h.Validator = section(idx, es, aggregate(es), false)
	return &fcaseParts{hdr: h, es: es, note: fmt.Sprintf("same block proposed honestly at round index %d by %s", idx, p.name())}, true
}

type fcaseParts struct {
	hdr  *types.Header
	es   []entry
	note string
}

func (fx *fixture) boundaryCases() []*fcase {
	var out []*fcase
	// weight == quorum: must be accepted
	if idx, ms, sum, exact := fx.boundary(fx.Q, false); ms != nil {
		if p, ok := fx.atIndex(idx, ms); ok {
			if exact {
				fx.r.Probe("boundary-at-quorum-exact")
			} else {
				fx.r.Probe("boundary-at-quorum-closest-only")
			}
			out = append(out, &fcase{kind: "boundary-at-quorum", control: true, hdr: p.hdr, legit: weightOf(p.es, true), claimed: weightOf(p.es, false),
				why: fmt.Sprintf("vote subset with weight %d (quorum %d, exact=%v); %s | entries: %s", sum, fx.Q, exact, p.note, entryNames(p.es))})
		}
	}
	// weight == quorum-1: must be rejected
	if fx.Q > 0 {
		if idx, ms, sum, exact := fx.boundary(fx.Q-1, true); ms != nil {
			if p, ok := fx.atIndex(idx, ms); ok {
				if exact {
					fx.r.Probe("boundary-below-quorum-exact")
				} else {
					fx.r.Probe("boundary-below-quorum-closest-only")
				}
				out = append(out, &fcase{kind: "sub-quorum-boundary", hdr: p.hdr, legit: weightOf(p.es, true), claimed: weightOf(p.es, false),
					why: fmt.Sprintf("valid votes only, weight %d = quorum %d - %d (exact=%v); %s | entries: %s", sum, fx.Q, fx.Q-sum, exact, p.note, entryNames(p.es))})
			}
		}
	}
	return out
}

func (fx *fixture) subQuorumCase() []*fcase {
	S, removed := fx.subQuorum(fx.r.C.Intn("subq-mode", 4))
	return []*fcase{fx.sameHashCase("sub-quorum", fx.ctx.Index, S, aggregate(S), false, fmt.Sprintf("valid honest votes only, weight below quorum %d (removed %s)", fx.Q, names(removed)))}
}

func (fx *fixture) noVotesCases() []*fcase {
	idx := fx.ctx.Index
	s := fx.proposer.key.BlsSk.Sign(chainkit.VotePayload(fx.honest.Hash(), fx.N, idx)).Compress()
	return []*fcase{
		fx.sameHashCase("no-votes", idx, nil, []byte{}, false, "protocol thresholds, no vote at all, empty aggregate"),
		fx.sameHashCase("no-votes", idx, nil, s[:], false, "protocol thresholds, no vote at all, a well-formed signature as aggregate"),
	}
}

func (fx *fixture) garbageSectionCases() []*fcase {
	h := fx.honest.Header()
	h.Validator = fx.r.C.Bytes("garbage-section", 12)
	h2 := fx.honest.Header()
	h2.Validator = []byte{}
	return []*fcase{
		{kind: "validator-field-garbage", hdr: h, why: "header.Validator is 12 seeded random bytes"},
		{kind: "validator-field-garbage", hdr: h2, why: "header.Validator is empty"},
	}
}

var _ = big.NewInt
