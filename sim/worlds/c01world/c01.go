// Package c01world decides property C01: a block header is accepted only with a
// protocol-sized quorum of valid precommits (and a proposer credential that verifies under the
// protocol's proposer threshold).
//
// The acceptance function under test (consensus/ucon/consensus.go verifyHeader ->
// verifyConsensusFieldMain -> verifyVotes) has no schedule in it. The simulation contributes
// the Byzantine party (a block forger holding a seeded subset of validator keys) and realistic
// material: a real chain grown by the real block-building path, so that the seed and stake
// look-back state the verifier reads is what a node really has on disk.
package c01world

import (
	"fmt"
	"github.com/youchainhq/go-youchain/rlp"
	"github.com/youchainhq/go-youchain/staking"
	"math/big"
	"sort"
	"time"

	"verifsim/kit"
	"verifsim/simdisk"
	"verifsim/worlds/chainkit"
	"verifsim/worlds/chainworld"

	"github.com/youchainhq/go-youchain/common"
	"github.com/youchainhq/go-youchain/consensus/ucon"
	"github.com/youchainhq/go-youchain/core"
	"github.com/youchainhq/go-youchain/core/state"
	"github.com/youchainhq/go-youchain/core/types"
	"github.com/youchainhq/go-youchain/crypto"
	"github.com/youchainhq/go-youchain/logging"
	"github.com/youchainhq/go-youchain/params"
)

func init() {
	logging.Root().SetHandler(logging.DiscardHandler())
	kit.Register(&kit.Check{
		Prop: "C01", Name: "forge", World: "CHAIN+FORGE", Level: "exploration",
		Rule: "The acceptance function (ucon.Server.verifyHeader -> verifyConsensusFieldMain -> verifyVotes) has no schedule in it; " +
			"the simulation contributes the Byzantine party and realistic material, nothing more. Per run: 4-9 genesis validators (seeded stakes, optional whale, optional minimum-stake validator, some Offline, some role House; in a quarter of the runs one silent validator registered with a rogue BLS key), " +
			"protocol committee size T in {2000,1000,300,100,40} and proposer threshold in {26,6,2} installed in params.Versions (the protocol table in force), " +
			"a real chain of 0-20 honest blocks built by the real miner.worker/txpool/staking over the forge engine (seed look-back 8 / stake look-back 16: both sides of each look-back edge are covered), imported by two verifying nodes (un-started ucon.Server + BlockChain). " +
			"For the next block the forge makes the honest material (proposer credential, every precommit with real VRF sortition proof and BLS signature, honest sealed block); a block forger holding a seeded subset of the validator keys derives forgeries, " +
			"each constructed so that the LEGITIMATE weight (distinct online chamber members of the look-back set, proof valid for this round/index/step Precommit, signature over this header hash) is below floor(T*685/1000) by construction " +
			"(or the proposer credential / aggregate signature is illegitimate by construction) and compensated by exactly one class of illegitimate material: duplicated entries, second proof of the same signer, votes replayed from another round / round index / step / block hash, " +
			"non-member index, index of another member, outsider key, offline signer, House signer, inflated Votes, zero-seat voter, aggregate of a subset / garbage / empty / other message, a lone quorum-sized vote with a foreign signature, votes in the House section, garbage vote section, " +
			"a validator registered with a rogue BLS public key (g^x minus the other voters' keys) that signs alone for credentials the honest voters revealed for another block, " +
			"author-lowered ValidatorThreshold (0,1,2,3,5,10,100,T/2; with and without votes), author-raised ProposerThreshold, zero-seat proposer, credential for another index, header or credential signed by another key, outsider proposer, inflated SubUsers, wrong priority, and combinations of two vote-level classes. " +
			"Positive controls every run: the honest block; a random super-quorum subset; a vote subset whose weight is exactly the quorum (subset-sum over all subsets and up to 24 round indexes; closest if no exact hit, counted by probes) and one with weight quorum-1 (must be rejected). " +
			"Every header is offered to the real verifier through Server.VerifyHeader(chain,header,true) (what the block fetcher calls), Server.VerifySeal, Server.VerifySideChainHeader with explicitly supplied look-back header and validator reader, " +
			"BlockChain.InsertChain on a node that has the real parent chain (main import path) and BlockChain.InsertChain on a node that already holds the honest block at that height (side-chain path / known-block path). " +
			"Oracle: every forgery is rejected on every path (an error; never stored, never canonical; a panic of the verifier counts as not rejected), every control accepted on every path. The quorum is computed by the check as floor(T*685/1000) with T = params.Versions[version in force].ValidatorThreshold, never from the header and never via ucon.OverThreshold. " +
			"Offered without a verdict (probes obs.*): Offline/House proposer, votes made at a later or earlier round index than the proposal, consensus-data round field different from the header number, author-declared CertValThreshold=1. " +
			"A run is non-trivial when at least one forgery was offered; the fingerprint is the sequence of (configuration bucket, case kind, verdict over all paths).",
		Real: []string{"consensus/ucon: Server.VerifyHeader/VerifySeal/VerifySideChainHeader/VerifyHeaders, verifyVotes, VrfVerifySortition, VrfVerifyPriority, BlsVerifier.RecoverSignerInfo, ExtractUconValidators, BlockConsensusData",
			"bls (real BLS12-381 aggregate verification)", "crypto/vrf/secp256k1", "core.BlockChain.InsertChain / insertSidechain / verifyAllSideChainBlocks, HeaderChain.VersionForRound, BlockValidator, StateProcessor",
			"staking module (EndBlock, rewards: look-back validator records change with the chain)", "miner.worker + core.TxPool (honest chain growth)", "core/state validator tries read through BlockChain.GetVldReader"},
		Stub: []string{"consensus rounds: the forge (chainkit) re-assembles the signing side of ucon from exported primitives (VrfSortition, ComputeSeed, VrfComputePriority, BlockConsensusData.SetSignature, UconValidators, BLS manager); no timers, no network",
			"quic-go API stub (p2p is linked, never run)", "crypto/rand.Reader replaced by a seeded stream (VRF proof nonces)"},
		FaultsNotInjected: []string{"message loss/reorder, crash/restart, clock faults: the acceptance function is a pure function of (header, look-back state, protocol table); nothing is in flight",
			"expelled validators: need a slashing history; an expelled validator is also set Offline by the staking module, which the offline-signer class covers",
			"certificate sections (ChamberCerts of certificate rounds): params.ACoCHTFrequency = 32768 is a constant, no chain in this world reaches it; VerifyAcHeader is not exercised",
			"registration of the rogue BLS key through a staking transaction: the crafted key is placed in the genesis validator set instead (TxCreateValidator.Validate, staking/types.go:142, checks only that the key is non-empty)"},
		Assumptions: []string{"a vote index (UconValidators.RoundIndex) later than the proposal's own round index is treated as legitimate (marked-block carry-over of the live protocol); it is offered as an observation, not judged",
			"an Offline or House PROPOSER is offered as an observation only: the property restricts voters to online chamber members but only requires the proposer credential to verify under the protocol threshold",
			"for a header whose author declared another committee size the legitimate weight is counted leniently (the listed voters' seats under the PROTOCOL committee size, although the entries claim the seats of the declared size); the forgery is built so that even this is below the quorum",
			"params.Versions is swapped per run (ValidatorThreshold, ProposerThreshold of YouV5) while no goroutine of the code under test exists; the honest side (forge) and the oracle read the same table"},
		QuickBudget: 45 * time.Second, ThoroughBudget: 15 * time.Minute,
		MinRuns:    16,
		Exec:       run,
		PanicClass: kit.PanicInRepo("verifier-panic-escaped"),
		// reach probes every batch is expected to hit (listed in the evidence as probes_never_hit otherwise)
		ExpectedProbes: []string{"boundary-at-quorum-closest-only", "boundary-at-quorum-exact", "boundary-below-quorum-closest-only", "boundary-below-quorum-exact", "index-skipped-no-proposer-or-no-honest-quorum", "lowered-threshold-reaches-declared-quorum", "not-applicable.author-lowered-validator-threshold", "not-applicable.author-lowered-validator-threshold-2", "not-applicable.author-lowered-validator-threshold-no-votes", "not-applicable.combo-1", "not-applicable.combo-2", "not-applicable.combo-3", "not-applicable.duplicate-vote", "not-applicable.house-signer", "not-applicable.inflated-weight", "not-applicable.lone-vote-bad-signature", "not-applicable.obs-house-proposer", "not-applicable.obs-offline-proposer", "not-applicable.offline-signer", "not-applicable.proposer-zero-seats", "not-applicable.proposer-zero-seats-claims-one", "not-applicable.rogue-bls-key", "not-applicable.same-signer-two-proofs", "not-applicable.voter-index-of-other", "not-applicable.zero-seat-voter", "obs.declared-cert-threshold-1.rejected", "obs.house-proposer.accepted", "obs.offline-proposer.accepted", "obs.round-field-mismatch.accepted", "obs.votes-at-earlier-index.accepted", "obs.votes-at-later-index.accepted", "seed-lookback-is-not-genesis", "stake-lookback-is-not-genesis", "stake-lookback-valroot-differs-from-genesis"},
	})
}

// setup is everything drawn before the bubble opens.
type setup struct {
	chainworld.Setup
	T, Tp   uint64 // protocol ValidatorThreshold / ProposerThreshold installed for this run
	nBlocks int    // honest blocks before the target block
	// depositAt > 0: validator 1 deposits in that block; the deposit takes effect at the end of
	// the first staking period (block 15) and the chain is long enough for the target block's
	// stake look-back (N-16) to lie before and its seed look-back (N-8) after that change
	depositAt int
	whale     bool
	rogue     int // index of the validator registered with a crafted (rogue) BLS key, -1: none
}

var (
	tChoices      = []uint64{2000, 2000, 1000, 300, 100, 40}
	tpChoices     = []uint64{26, 26, 6, 2}
	lengthChoices = []int{0, 1, 2, 5, 7, 8, 9, 12, 15, 16, 17, 20}
)

func drawSetup(c *kit.Chooser) setup {
	s := setup{}
	s.NVals = 4 + c.Intn("nvals", 6)
	s.PoolCfg = core.DefaultTxPoolConfig
	s.whale = c.Chance("whale", 1, 6)
	for i := 0; i < s.NVals; i++ {
		st := uint64(50000 + 10000*c.Intn("stake", 8))
		if s.whale && i == 0 {
			st = uint64(600000 + 100000*c.Intn("whale-stake", 4))
		}
		if i == 3 && c.Chance("dust", 1, 3) {
			// a validator at the minimum stake: it regularly gets zero seats
			st = uint64(1000 + 1000*c.Intn("dust-stake", 3))
		}
		s.Stakes = append(s.Stakes, st)
		s.Offline = append(s.Offline, i >= 2 && c.Chance("offline", 1, 3))
		s.House = append(s.House, i >= 2 && c.Chance("house", 1, 4))
	}
	s.rogue = -1
	if c.Chance("rogue-bls-key", 1, 4) {
		// the last validator: an online Senator with a small stake that never takes part honestly
		s.rogue = s.NVals - 1
		s.Stakes[s.rogue] = uint64(8000 + 1000*c.Intn("rogue-stake", 8))
		s.Offline[s.rogue], s.House[s.rogue] = false, false
	}
	s.T = tChoices[c.Intn("T", len(tChoices))]
	s.Tp = tpChoices[c.Intn("Tp", len(tpChoices))]
	s.nBlocks = lengthChoices[c.Intn("chain-length", len(lengthChoices))]
	if s.rogue != 1 && c.Chance("validator-set-changes-inside-the-window", 1, 5) {
		s.nBlocks = 22 + c.Intn("long-chain", 8) // target block N = 23..30
		s.depositAt = 2 + c.Intn("deposit-at", 12)
		s.Offline[1], s.House[1] = false, false
	}
	return s
}

// val is one validator of the run as the look-back set of the target block sees it.
type val struct {
	key     *chainkit.ValKey
	rec     *state.Validator // record in the stake-look-back set (nil: not a member)
	idx     uint32           // index in the look-back set
	online  bool
	chamber bool
	forger  bool // key held by the Byzantine forger
	rogue   bool // registered with a crafted BLS public key; never votes or proposes honestly
}

func (v *val) name() string { return v.key.Name() }

// voter reports whether v is entitled to vote: online chamber member of the look-back set.
// (The rogue-key validator is a member, online and chamber, but no honest material of it
// exists: it is kept out of every pool of honest voters.)
func (v *val) voter() bool { return v.rec != nil && v.online && v.chamber && !v.rogue }

type fixture struct {
	r        *kit.Run
	w        *chainworld.World
	imA, imB *chainkit.Importer
	N        uint64
	yp       *params.YouParams
	T, Tp    uint64 // protocol thresholds in force for block N
	Tc       uint64
	Q        uint64 // floor(T*685/1000), computed here
	ctx      *chainkit.Ctx
	honest   *types.Block
	parent   *types.Block
	hcd      *ucon.BlockConsensusData
	votes    []*chainkit.SignedVote
	proposer *val
	vals     []*val
	outside  []*chainkit.ValKey
	seedHdr  *types.Header
	vld      state.ValidatorReader
	wCache   map[uint32][]uint32 // precommit seats per validator (fx.vals order) at a round index, under T
	pCache   map[uint32][]uint32 // proposer seats per validator at a round index, under Tp
	clones   int
	poisoned bool
	rogueKey *chainkit.ValKey
}

func run(r *kit.Run) {
	params.InitNetworkId(params.NetworkIdForTestCase)
	su := drawSetup(r.C)
	// install this run's protocol table (the table is process-global; it is only swapped while
	// no goroutine of the code under test exists, and restored afterwards)
	orig := params.Versions
	tbl := make(params.VersionsMap, len(orig))
	for k, v := range orig {
		tbl[k] = v
	}
	yp := tbl[params.YouV5]
	yp.ValidatorThreshold, yp.ProposerThreshold = su.T, su.Tp
	tbl[params.YouV5] = yp
	params.Versions = tbl
	defer func() { params.Versions = orig }()

	r.Logf("setup nvals=%d stakes=%v offline=%v house=%v rogue=%d T=%d Tp=%d blocks=%d", su.NVals, su.Stakes, su.Offline, su.House, su.rogue, su.T, su.Tp, su.nBlocks)
	runWorld(r, su.Setup, su.rogue, func(w *chainworld.World, rogueKey *chainkit.ValKey) {
		fx := &fixture{r: r, w: w, wCache: map[uint32][]uint32{}, pCache: map[uint32][]uint32{}, rogueKey: rogueKey}
		var err error
		if fx.imA, err = chainkit.NewImporter(simdisk.NewNoLog(), w.Genesis, kit.Wait); err != nil {
			panic(err)
		}
		defer fx.imA.Stop(kit.Wait)
		if fx.imB, err = chainkit.NewImporter(simdisk.NewNoLog(), w.Genesis, kit.Wait); err != nil {
			panic(err)
		}
		defer fx.imB.Stop(kit.Wait)
		w.B.Engine.ProposerOrder = r.C.Perm("proposer-order", len(w.B.Engine.Keys))

		// honest prefix: blocks 1..N-1 on the builder and both importers
		for i := 0; i < su.nBlocks; i++ {
			if su.depositAt > 0 && i+1 == su.depositAt {
				fx.submitDeposit()
			}
			blk := fx.buildHonest(true)
			if blk == nil {
				return
			}
			for _, im := range []*chainkit.Importer{fx.imA, fx.imB} {
				err := im.Chain.InsertChain(types.Blocks{blk})
				kit.Wait()
				if err != nil || im.Chain.CurrentBlock().Hash() != blk.Hash() {
					r.Fail("control-rejected:honest-chain", "honest block %d (forge, protocol thresholds T=%d Tp=%d) not imported: err=%v head=%d", blk.NumberU64(), su.T, su.Tp, err, im.Chain.CurrentBlock().NumberU64())
				}
			}
		}
		// the target block N, honestly built; importer B gets it (control on the main import
		// path), importer A stays at N-1
		fx.parent = w.B.Chain.CurrentBlock()
		blk := fx.buildHonest(false)
		if blk == nil {
			return
		}
		fx.honest = blk
		fx.N = blk.NumberU64()
		if !fx.prepare() {
			return
		}
		err = fx.imB.Chain.InsertChain(types.Blocks{blk})
		kit.Wait()
		if err != nil || fx.imB.Chain.CurrentBlock().Hash() != blk.Hash() {
			r.Fail("control-rejected:honest", "honest block %d not imported by InsertChain (main path): err=%v head=%d", fx.N, err, fx.imB.Chain.CurrentBlock().NumberU64())
		}
		fx.runCases()
		// finally the honest block on importer A's main path: it must still be importable after
		// all the rejected forgeries (and it shows A was a working verifier all along)
		if !fx.poisoned {
			err = fx.imA.Chain.InsertChain(types.Blocks{blk})
			kit.Wait()
			r.Logf("final honest import on A -> %s head=%d", errStr(err), fx.imA.Chain.CurrentBlock().NumberU64())
			if err != nil || fx.imA.Chain.CurrentBlock().Hash() != blk.Hash() {
				r.Report("control-rejected:honest", "honest block %d not imported on importer A after the forgeries: err=%v head=%d", fx.N, err, fx.imA.Chain.CurrentBlock().NumberU64())
			}
		}
	})
}

// buildHonest lets the builder produce the next honest block at a round index at which the
// online chamber's total precommit weight reaches the quorum (with small committees the
// binomial lottery occasionally leaves all honest voters together below it: such an index
// simply times out in the live protocol).
func (fx *fixture) buildHonest(withTxs bool) *types.Block {
	r, w := fx.r, fx.w
	number := w.B.Chain.CurrentBlock().NumberU64() + 1
	yp, err := w.B.Chain.VersionForRound(number)
	if err != nil {
		panic(err)
	}
	q := yp.ValidatorThreshold * 685 / 1000
	start := uint32(1 + []int{0, 0, 0, 1, 2, 5}[r.C.Intn("start-index", 6)])
	idx := uint32(0)
	for i := start; i < start+60; i++ {
		ctx, err := chainkit.NewCtx(w.B.Chain, number, i)
		if err != nil {
			panic(err)
		}
		var wsum uint64
		hasProposer := false
		for _, gv := range w.Vals {
			rec := chainkit.StakeOf(ctx, gv.Key)
			if rec == nil || rec.Status != params.ValidatorOnline || rec.Kind() != params.KindChamber || gv.Key == fx.rogueKey {
				continue
			}
			_, _, j := ucon.VrfSortition(gv.Key.VrfSk, ctx.Seed, i, uint32(ucon.Precommit), yp.ValidatorThreshold, rec.Stake, ctx.TotalStake)
			wsum += uint64(j)
			if !hasProposer {
				_, _, pj := ucon.VrfSortition(gv.Key.VrfSk, ctx.Seed, i, ucon.UConStepProposal, yp.ProposerThreshold, rec.Stake, ctx.TotalStake)
				hasProposer = pj > 0
			}
		}
		if hasProposer && wsum >= q {
			idx = i
			break
		}
		r.Probe("index-skipped-no-proposer-or-no-honest-quorum")
	}
	if idx == 0 {
		r.Logf("no usable round index for block %d", number)
		r.Abort()
	}
	w.B.Engine.StartIndex = idx
	if withTxs {
		// all transactions of one block come from ONE sender: equal-priced transactions of
		// different senders are ordered by map iteration in the pool (DESIGN 2.10), which
		// would make the block hash (printed in this world's trace) differ between replays
		n := r.C.Intn("ntx", 3)
		from := r.C.Intn("from", chainkit.NClients)
		var txs []*types.Transaction
		for j := 0; j < n; j++ {
			txs = append(txs, w.Transfer(from, chainworld.ClientAddr(r.C.Intn("to", chainkit.NClients)), big.NewInt(int64(1+r.C.Intn("amt", 1000))), 1))
		}
		w.Submit(txs...)
	}
	blk, err := w.NextBlock()
	if err != nil {
		r.Fail("control-rejected:honest-chain", "builder could not build block %d: %v", number, err)
	}
	cd, _ := ucon.GetConsensusDataFromHeader(blk.Header())
	var wsum uint64
	for _, v := range w.B.Engine.LastVotes {
		wsum += uint64(v.Weight)
	}
	r.Logf("built %d idx=%d txs=%d votes=%d weight=%d quorum=%d valroot=%x", blk.NumberU64(), cd.RoundIndex, len(blk.Transactions()), len(w.B.Engine.LastVotes), wsum, q, blk.Header().ValRoot[:4])
	return blk
}

// submitDeposit: client 1, the operator of validator 1, deposits: the validator's stake (and the
// total stake) change when the deposit takes effect at the end of the staking period.
func (fx *fixture) submitDeposit() {
	w := fx.w
	key := chainkit.ClientKey(1)
	addr := chainworld.ClientAddr(1)
	n := w.Nonces[addr]
	w.Nonces[addr] = n + 1
	amt := new(big.Int).Mul(big.NewInt(int64(20000+1000*fx.r.C.Intn("deposit-amount", 40))), params.StakeUint)
	payload, err := rlp.EncodeToBytes(&staking.TxValidatorDeposit{MainAddress: w.Vals[1].Key.Addr, Value: amt, Nonce: n})
	if err != nil {
		panic(err)
	}
	data, err := rlp.EncodeToBytes(&staking.Message{Action: staking.ValidatorDeposit, Payload: payload})
	if err != nil {
		panic(err)
	}
	tx := types.NewTransaction(n, params.StakingModuleAddress, new(big.Int), 400000, big.NewInt(3), data)
	stx, err := types.SignTx(tx, chainkit.Signer(), key)
	if err != nil {
		panic(err)
	}
	errs := w.Submit(stx)
	fx.r.Logf("validator %s deposits %v (pool: %v)", w.Vals[1].Key.Name(), amt, errs[0])
	fx.r.Fault("validator-deposit")
}

// prepare derives the fixture of the target block from the honest material.
func (fx *fixture) prepare() bool {
	r, w := fx.r, fx.w
	var err error
	if fx.yp, err = w.B.Chain.VersionForRound(fx.N); err != nil {
		panic(err)
	}
	// the committee size and proposer threshold of the protocol version in force, from the
	// protocol table -- never from the header under test
	ver := w.B.Chain.GetHeaderByNumber(lookBack(fx.N, 8)).CurrVersion
	fx.T = params.Versions[ver].ValidatorThreshold
	fx.Tp = params.Versions[ver].ProposerThreshold
	fx.Tc = params.Versions[ver].CertValThreshold
	fx.Q = fx.T * 685 / 1000
	fx.ctx = w.B.Engine.LastCtx
	fx.votes = w.B.Engine.LastVotes
	if fx.ctx == nil || fx.ctx.Round != fx.N {
		panic("c01world: forge context does not belong to the target block")
	}
	fx.hcd, err = ucon.GetConsensusDataFromHeader(fx.honest.Header())
	if err != nil {
		panic(err)
	}
	pub, err := fx.hcd.GetPublicKey()
	if err != nil {
		panic(err)
	}
	paddr := crypto.PubkeyToAddress(*pub)
	nForger := 0
	all := r.C.Chance("forger-holds-all-keys", 1, 5)
	for _, gv := range w.Vals {
		v := &val{key: gv.Key, rec: chainkit.StakeOf(fx.ctx, gv.Key)}
		if v.rec != nil {
			i, _ := fx.ctx.Vals.GetIndex(gv.Key.Addr)
			v.idx = uint32(i)
			v.online = v.rec.Status == params.ValidatorOnline
			v.chamber = v.rec.Kind() == params.KindChamber
		}
		v.forger = r.C.Chance("forger-key", 1, 2) || all
		if gv.Key == fx.rogueKey {
			v.rogue, v.forger = true, true
		}
		if v.forger {
			nForger++
		}
		if gv.Key.Addr == paddr {
			fx.proposer = v
		}
		fx.vals = append(fx.vals, v)
	}
	if nForger == 0 {
		fx.vals[len(fx.vals)-1].forger = true
	}
	if fx.proposer == nil {
		panic("c01world: proposer of the honest block is not a validator of the run")
	}
	for _, k := range chainkit.Keys()[len(w.Vals):] {
		fx.outside = append(fx.outside, k)
	}
	// explicit look-back material for VerifySideChainHeader, read from importer A's own chain
	fx.seedHdr = fx.imA.Chain.GetHeaderByNumber(lookBack(fx.N, fx.yp.SeedLookBack))
	stakeHdr := fx.imA.Chain.GetHeaderByNumber(lookBack(fx.N, fx.yp.StakeLookBack))
	if fx.seedHdr == nil || stakeHdr == nil {
		panic("c01world: importer A lacks the look-back headers")
	}
	if fx.vld, err = fx.imA.Chain.GetVldReader(stakeHdr.ValRoot); err != nil {
		panic(err)
	}
	gen := fx.imA.Chain.GetHeaderByNumber(0)
	if stakeHdr.Number.Uint64() > 0 {
		r.Probe("stake-lookback-is-not-genesis")
		if stakeHdr.ValRoot != gen.ValRoot {
			r.Probe("stake-lookback-valroot-differs-from-genesis")
		}
	}
	if fx.seedHdr.Number.Uint64() > 0 {
		r.Probe("seed-lookback-is-not-genesis")
	}
	if vs, err := fx.imA.Chain.GetVldReader(fx.seedHdr.ValRoot); err == nil {
		a, b := fx.vld.GetValidatorByMainAddr(w.Vals[1].Key.Addr), vs.GetValidatorByMainAddr(w.Vals[1].Key.Addr)
		if a != nil && b != nil && a.Stake.Cmp(b.Stake) != 0 {
			r.Probe("a stake differs between the stake look-back and the seed look-back state")
		}
	}
	var desc []string
	var wsum uint64
	for _, v := range fx.vals {
		d := v.name()
		if v.rec == nil {
			d += ":absent"
		} else {
			d += fmt.Sprintf(":i%d:s%v", v.idx, v.rec.Stake)
			if !v.online {
				d += ":off"
			}
			if !v.chamber {
				d += ":house"
			}
		}
		if v.forger {
			d += ":F"
		}
		if v.rogue {
			d += ":ROGUE-BLS-KEY"
		}
		desc = append(desc, d)
	}
	for _, sv := range fx.votes {
		wsum += uint64(sv.Weight)
	}
	r.Logf("target N=%d idx=%d proposer=%s T=%d Tp=%d Q=%d honest-weight=%d total-stake=%v seedLB=%d stakeLB=%d vals=%v",
		fx.N, fx.ctx.Index, fx.proposer.name(), fx.T, fx.Tp, fx.Q, wsum, fx.ctx.TotalStake, fx.seedHdr.Number, stakeHdr.Number, desc)
	if wsum < fx.Q {
		panic("c01world: honest weight below quorum although the index was screened")
	}
	r.FP(fmt.Sprintf("N%d/T%d/Tp%d/nv%d", bucket(fx.N), fx.T, fx.Tp, len(fx.vals)))
	return true
}

func bucket(n uint64) int {
	switch {
	case n <= 8:
		return 0
	case n <= 16:
		return 1
	}
	return 2
}

func lookBack(num, cfg uint64) uint64 {
	if num > cfg {
		return num - cfg
	}
	return 0
}

func errStr(err error) string {
	if err == nil {
		return "ACCEPTED"
	}
	s := err.Error()
	if len(s) > 90 {
		s = s[:90] + "…"
	}
	return "rejected(" + s + ")"
}

func (fx *fixture) valByKey(k *chainkit.ValKey) *val {
	for _, v := range fx.vals {
		if v.key == k {
			return v
		}
	}
	return nil
}

// ctxAt is the honest context of round N at another round index (same look-back data).
func (fx *fixture) ctxAt(idx uint32) *chainkit.Ctx {
	c := *fx.ctx
	c.Index = idx
	return &c
}

// seatsAt returns, per validator (fx.vals order), the precommit seats under the protocol's T
// and the proposer seats under the protocol's Tp at round index idx. Validators that are not
// members of the look-back set get 0. The sortition is computed with the validator's own stake
// and the online chamber stake, for every member (offline and House members included: that is
// what a Byzantine holder of such a key would compute).
func (fx *fixture) seatsAt(idx uint32) (w, p []uint32) {
	if w, ok := fx.wCache[idx]; ok {
		return w, fx.pCache[idx]
	}
	for _, v := range fx.vals {
		var wj, pj uint32
		if v.rec != nil {
			_, _, wj = ucon.VrfSortition(v.key.VrfSk, fx.ctx.Seed, idx, uint32(ucon.Precommit), fx.T, v.rec.Stake, fx.ctx.TotalStake)
			_, _, pj = ucon.VrfSortition(v.key.VrfSk, fx.ctx.Seed, idx, ucon.UConStepProposal, fx.Tp, v.rec.Stake, fx.ctx.TotalStake)
		}
		w = append(w, wj)
		p = append(p, pj)
	}
	fx.wCache[idx], fx.pCache[idx] = w, p
	return w, p
}

// honestWeightAt is the total precommit weight of the entitled voters at idx.
func (fx *fixture) honestWeightAt(idx uint32) uint64 {
	w, _ := fx.seatsAt(idx)
	var s uint64
	for i, v := range fx.vals {
		if v.voter() {
			s += uint64(w[i])
		}
	}
	return s
}

func sortedKeys(m map[string]int) []string {
	var ks []string
	for k := range m {
		ks = append(ks, k)
	}
	sort.Strings(ks)
	return ks
}

var _ = common.Hash{}
