package c01world

import (
	"fmt"
	"runtime/debug"
	"strings"

	"verifsim/kit"
	"verifsim/worlds/chainkit"

	"github.com/youchainhq/go-youchain/core/types"
)

// fcase is one header offered to the verifier.
type fcase struct {
	kind    string // class suffix
	control bool   // must be accepted
	observe bool   // no expectation (logged and counted only)
	hdr     *types.Header
	legit   uint64 // legitimate vote weight by construction
	claimed uint64 // weight the forger hopes the verifier counts
	why     string // what is illegitimate about it (or what the control shows)
}

type result struct {
	path     string
	err      error
	panicked bool
	pmsg     string
	note     string
}

func (x result) accepted() bool { return !x.panicked && x.err == nil }

func (x result) String() string {
	s := x.path + "="
	switch {
	case x.panicked:
		s += "PANIC(" + x.pmsg + ")"
	case x.err == nil:
		s += "ACCEPTED"
	default:
		s += errStr(x.err)
	}
	if x.note != "" {
		s += "[" + x.note + "]"
	}
	return s
}

// guard runs one direct verifier call on the simulator goroutine and turns a panic of the
// verifier into a result (a crash of the verifying process is "not rejected").
func guard(path string, f func() error) (res result) {
	res.path = path
	defer func() {
		if v := recover(); v != nil {
			res.panicked = true
			res.pmsg = fmt.Sprintf("%v | %s", v, repoFrames(string(debug.Stack())))
		}
	}()
	res.err = f()
	return
}

// repoFrames keeps the frames of the code under test of a stack, compactly.
func repoFrames(stack string) string {
	var out []string
	for _, ln := range strings.Split(stack, "\n") {
		ln = strings.TrimSpace(ln)
		j := strings.Index(ln, "/repo/")
		if j < 0 || strings.Contains(ln, "/verif/") || !strings.HasPrefix(ln, "/") {
			continue
		}
		if i := strings.Index(ln, " +0x"); i > 0 {
			ln = ln[:i]
		}
		out = append(out, ln[j+len("/repo/"):])
		if len(out) >= 5 {
			break
		}
	}
	return strings.Join(out, " < ")
}

// offer hands the header of c to the real verifier on every path and applies the oracle.
func (fx *fixture) offer(c *fcase) {
	r := fx.r
	if fx.poisoned {
		return
	}
	hdr := c.hdr
	blk := fx.honest.WithSeal(hdr)
	hash := hdr.Hash()
	sameHash := hash == fx.honest.Hash()
	var res []result

	// P0: what the block fetcher calls for a propagated block (you/handler.go:147)
	p0 := guard("VerifyHeader", func() error { return fx.imA.Engine.VerifyHeader(fx.imA.Chain, hdr, true) })
	res = append(res, p0)
	r.Steps++
	if !p0.panicked {
		// P1: VerifySeal (blockchain.go:329,344)
		res = append(res, guard("VerifySeal", func() error { return fx.imA.Engine.VerifySeal(fx.imA.Chain, hdr) }))
		// P2: the side-chain verifier with explicitly supplied look-back readers (blockchain.go:694)
		res = append(res, guard("VerifySideChainHeader", func() error {
			return fx.imA.Engine.VerifySideChainHeader(&fx.yp.CaravelParams, fx.seedHdr, fx.vld, nil, nil, blk, []*types.Block{fx.parent})
		}))
		r.Steps += 2
		anyPanic := false
		for _, x := range res {
			anyPanic = anyPanic || x.panicked
		}
		if !anyPanic {
			// P3: the main import path on a node that has the real parent chain. If the direct
			// call already accepted the header (or it is a control), a clone of importer A's
			// disk is used so that A stays at N-1 for the remaining cases.
			if p0.err != nil && !c.control {
				x := result{path: "InsertChain(main)"}
				x.err = fx.imA.Chain.InsertChain(types.Blocks{blk})
				kit.Wait()
				if x.err == nil {
					x.note = fx.canonNote(fx.imA, blk)
					fx.poisoned = true
				} else if fx.imA.Chain.CurrentBlock().NumberU64() != fx.N-1 {
					x.note = "head moved"
					fx.poisoned = true
				}
				res = append(res, x)
				r.Steps++
			} else if fx.clones < 6 || c.control {
				fx.clones++
				cl, err := chainkit.NewImporter(fx.imA.Disk.Restart(), fx.w.Genesis, kit.Wait)
				if err != nil {
					panic(err)
				}
				x := result{path: "InsertChain(main,clone)"}
				x.err = cl.Chain.InsertChain(types.Blocks{blk})
				kit.Wait()
				if x.err == nil {
					x.note = fx.canonNote(cl, blk)
				}
				cl.Stop(kit.Wait)
				res = append(res, x)
				r.Steps++
			}
			// P4: a node that already holds the honest block at this height: a different hash
			// goes down the side-chain path (ErrExistCanonical -> insertSidechain ->
			// VerifySideChainHeader), the same hash is verified and then found known.
			x := result{path: "InsertChain(side)"}
			if sameHash {
				x.path = "InsertChain(known)"
			}
			x.err = fx.imB.Chain.InsertChain(types.Blocks{blk})
			kit.Wait()
			if x.err == nil && !sameHash {
				if fx.imB.Chain.HasBlock(hash, fx.N) {
					x.note = "stored as side block"
				}
				if fx.imB.Chain.CurrentBlock().Hash() == hash {
					x.note = "became canonical head (reorg)"
				}
			}
			res = append(res, x)
			r.Steps++
		}
	}

	var parts []string
	acc, rej, pan := 0, 0, 0
	for _, x := range res {
		parts = append(parts, x.String())
		switch {
		case x.panicked:
			pan++
		case x.err == nil:
			acc++
		default:
			rej++
		}
	}
	verdict := "rejected"
	if pan > 0 {
		verdict = "CRASHED"
	} else if acc > 0 && rej > 0 {
		verdict = "MIXED"
	} else if acc > 0 {
		verdict = "accepted"
	}
	role := "forgery"
	if c.control {
		role = "control"
	} else if c.observe {
		role = "observe"
	}
	r.Logf("%s %-44s hash=%x legit=%d claimed=%d quorum=%d -> %s | %s | %s", role, c.kind, hash[:4], c.legit, c.claimed, fx.Q, verdict, strings.Join(parts, " "), c.why)
	r.FP(c.kind, verdict)
	switch {
	case c.observe:
		r.Probe("obs." + c.kind + "." + verdict)
	case c.control:
		r.Count("controls", 1)
		if pan > 0 || rej > 0 {
			r.Report("control-rejected:"+c.kind, "block %d: %s | legit weight %d, quorum floor(%d*685/1000)=%d | %s", fx.N, c.why, c.legit, fx.T, fx.Q, strings.Join(parts, " "))
		}
	default:
		r.Fault("forgery." + c.kind)
		r.Count("forgeries", 1)
		if c.claimed >= fx.Q {
			r.Count("forgeries-claiming-quorum", 1)
		}
		if pan > 0 {
			r.Report("forgery-accepted:"+c.kind, "block %d NOT REJECTED, THE VERIFIER CRASHED: %s | legit weight %d < quorum floor(%d*685/1000)=%d | %s", fx.N, c.why, c.legit, fx.T, fx.Q, strings.Join(parts, " "))
		} else if acc > 0 {
			r.Report("forgery-accepted:"+c.kind, "block %d: %s | legit weight %d, quorum floor(%d*685/1000)=%d | %s", fx.N, c.why, c.legit, fx.T, fx.Q, strings.Join(parts, " "))
		}
	}
	if fx.poisoned {
		r.Logf("importer A accepted a header through InsertChain that its own VerifyHeader rejected; stopping the case loop")
	}
}

func (fx *fixture) canonNote(im *chainkit.Importer, blk *types.Block) string {
	if im.Chain.CurrentBlock().Hash() == blk.Hash() {
		if c := im.Chain.GetBlockByNumber(blk.NumberU64()); c != nil && c.Hash() == blk.Hash() {
			return "became canonical head"
		}
	}
	if im.Chain.HasBlock(blk.Hash(), blk.NumberU64()) {
		return "stored, not head"
	}
	return "not stored (future/queued?)"
}
