package c01world

import (
	"crypto/ecdsa"
	"fmt"
	"math/big"
	"strings"

	"verifsim/worlds/chainkit"

	"github.com/youchainhq/go-youchain/bls"
	"github.com/youchainhq/go-youchain/common"
	"github.com/youchainhq/go-youchain/consensus/ucon"
	"github.com/youchainhq/go-youchain/core/types"
	"github.com/youchainhq/go-youchain/crypto"
)

const (
	stepPrevote   = uint32(ucon.Prevote)
	stepPrecommit = uint32(ucon.Precommit)
	stepNextIndex = uint32(ucon.NextIndex)
	stepCert      = uint32(ucon.Certificate)
)

// entry is one vote as it is listed in header.Validator, with the individual BLS signature
// the forger holds for it and the by-construction label.
type entry struct {
	v     *val
	sv    ucon.SingleVote
	sig   bls.Signature
	legit bool   // a precommit of an entitled voter, valid proof for (N, idx, Precommit), signature over this header's payload, true weight
	w     uint32 // weight the entry claims
	tag   string
}

func weightOf(es []entry, onlyLegit bool) uint64 {
	var s uint64
	seen := map[*val]bool{}
	for _, e := range es {
		if onlyLegit {
			if !e.legit || seen[e.v] {
				continue
			}
			seen[e.v] = true
		}
		s += uint64(e.w)
	}
	return s
}

// aggregate aggregates the individual signatures of es (with multiplicity).
func aggregate(es []entry) []byte {
	var sigs []bls.Signature
	for _, e := range es {
		sigs = append(sigs, e.sig)
	}
	if len(sigs) == 0 {
		return []byte{}
	}
	a, err := chainkit.BlsMgr.Aggregate(sigs)
	if err != nil {
		panic(err)
	}
	c := a.Compress()
	return c[:]
}

// aggregateDistinct aggregates one signature per distinct signer (first entry wins): what the
// verifier's public-key list looks like after it skipped duplicates.
func aggregateDistinct(es []entry) []byte {
	seen := map[*val]bool{}
	var d []entry
	for _, e := range es {
		if !seen[e.v] {
			seen[e.v] = true
			d = append(d, e)
		}
	}
	return aggregate(d)
}

// section builds header.Validator.
func section(idx uint32, es []entry, agg []byte, inHouse bool) []byte {
	uv := &ucon.UconValidators{RoundIndex: idx, SCAggrSig: agg, MCAggrSig: []byte{}}
	var svs []ucon.SingleVote
	for _, e := range es {
		svs = append(svs, e.sv)
	}
	if inHouse {
		uv.HouseCommitters, uv.MCAggrSig = svs, agg
	} else {
		uv.ChamberCommitters = svs
	}
	b, err := uv.ValidatorsToByte()
	if err != nil {
		panic(err)
	}
	return b
}

// mkVote makes a vote of v: sortition proof for (seed, step, sortIdx) with committee size T,
// BLS signature over payload(hash, round, payIdx). stakeOf supplies the stake for non-members.
func (fx *fixture) mkVote(v *val, key *chainkit.ValKey, stake, total *big.Int, seed common.Hash, sortIdx uint32, step uint32, T uint64, hash common.Hash, round uint64, payIdx uint32) entry {
	_, proof, j := ucon.VrfSortition(key.VrfSk, seed, sortIdx, step, T, stake, total)
	sig := key.BlsSk.Sign(chainkit.VotePayload(hash, round, payIdx))
	return entry{v: v, sv: ucon.SingleVote{VoterIdx: v.idx, Votes: j, Proof: proof}, sig: sig, w: j}
}

// honestEntries are the honest precommits of the honest block, as entries.
func (fx *fixture) honestEntries() []entry {
	var es []entry
	for _, sv := range fx.votes {
		es = append(es, entry{v: fx.valByKey(sv.Key), sv: sv.Vote, sig: sv.Sig, legit: true, w: sv.Weight, tag: "honest"})
	}
	return es
}

// freshQuorum makes the precommits of every entitled voter for a new header hash at round
// index idx (the forger needs all those keys; used where the votes must not be the reason
// for a rejection).
func (fx *fixture) freshQuorum(idx uint32, hash common.Hash) []entry {
	var es []entry
	for _, v := range fx.vals {
		if !v.voter() {
			continue
		}
		e := fx.mkVote(v, v.key, v.rec.Stake, fx.ctx.TotalStake, fx.ctx.Seed, idx, stepPrecommit, fx.T, hash, fx.N, idx)
		if e.w == 0 {
			continue
		}
		e.legit, e.tag = true, "fresh"
		es = append(es, e)
	}
	return es
}

// subQuorum picks S, a subset of the honest votes with weight below the quorum, and returns
// the voters whose votes were removed. mode 0: the heaviest subset below the quorum
// (subset-sum), 1: seeded removal order, 2: a single vote, 3: nothing kept.
func (fx *fixture) subQuorum(mode int) (S []entry, removed []*val) {
	all := fx.honestEntries()
	n := len(all)
	pick := func(mask int) {
		for i, e := range all {
			if mask&(1<<uint(i)) != 0 {
				S = append(S, e)
			} else {
				removed = append(removed, e.v)
			}
		}
	}
	switch mode {
	case 0:
		best, bestSum := 0, uint64(0)
		for mask := 0; mask < 1<<uint(n); mask++ {
			var s uint64
			for i, e := range all {
				if mask&(1<<uint(i)) != 0 {
					s += uint64(e.w)
				}
			}
			if s < fx.Q && s >= bestSum {
				if s > bestSum || mask < best {
					best, bestSum = mask, s
				}
			}
		}
		pick(best)
	case 1:
		perm := fx.r.C.Perm("remove-order", n)
		mask := 1<<uint(n) - 1
		sum := weightOf(all, false)
		for _, i := range perm {
			if sum < fx.Q {
				break
			}
			mask &^= 1 << uint(i)
			sum -= uint64(all[i].w)
		}
		pick(mask)
	case 2:
		i := fx.r.C.Intn("single-vote", n)
		if uint64(all[i].w) >= fx.Q {
			pick(0)
		} else {
			pick(1 << uint(i))
		}
	default:
		pick(0)
	}
	if weightOf(S, true) >= fx.Q {
		panic("c01world: sub-quorum selection is not below the quorum")
	}
	return
}

func names(vs []*val) string {
	var s []string
	for _, v := range vs {
		s = append(s, v.name())
	}
	return strings.Join(s, ",")
}

func entryNames(es []entry) string {
	var s []string
	for _, e := range es {
		t := fmt.Sprintf("%s:%d", e.v.name(), e.w)
		if !e.legit {
			t += "!" + e.tag
		}
		s = append(s, t)
	}
	return strings.Join(s, " ")
}

// sameHashCase builds a forgery/control that keeps the honest header hash: only
// header.Validator (outside the hash) is replaced.
func (fx *fixture) sameHashCase(kind string, idx uint32, es []entry, agg []byte, inHouse bool, why string) *fcase {
	h := fx.honest.Header()
	h.Validator = section(idx, es, agg, inHouse)
	c := &fcase{kind: kind, hdr: h, legit: weightOf(es, true), claimed: weightOf(es, false), why: why + " | entries: " + entryNames(es)}
	return c
}

// credSpec describes a proposer credential (possibly dishonest).
type credSpec struct {
	key         *chainkit.ValKey
	stake       *big.Int
	proofIdx    uint32 // round index the VRF proof is made for
	fieldIdx    uint32 // RoundIndex written into the consensus data
	sortTp      uint64 // proposer threshold used to compute the seats
	fTp, fT, fC uint64 // thresholds written into the consensus data
	subUsers    *uint32
	priority    *common.Hash
	round       uint64
	innerSigner *ecdsa.PrivateKey
}

func (fx *fixture) honestSpec(v *val, idx uint32) credSpec {
	return credSpec{key: v.key, stake: v.rec.Stake, proofIdx: idx, fieldIdx: idx, sortTp: fx.Tp, fTp: fx.Tp, fT: fx.T, fC: fx.Tc, round: fx.N}
}

// credential computes the consensus data of s and the seats j the sortition really gives.
func (fx *fixture) credential(s credSpec) (*ucon.BlockConsensusData, uint32) {
	value, proof, j := ucon.VrfSortition(s.key.VrfSk, fx.ctx.Seed, s.proofIdx, ucon.UConStepProposal, s.sortTp, s.stake, fx.ctx.TotalStake)
	round := new(big.Int).SetUint64(s.round)
	seed, _ := ucon.ComputeSeed(s.key.VrfSk, round, s.fieldIdx, fx.ctx.Seed)
	claim := j
	if s.subUsers != nil {
		claim = *s.subUsers
	}
	cd := &ucon.BlockConsensusData{Round: round, RoundIndex: s.fieldIdx, Seed: seed, SortitionProof: proof,
		Priority: ucon.VrfComputePriority(value, claim), SubUsers: claim,
		ProposerThreshold: s.fTp, ValidatorThreshold: s.fT, CertValThreshold: s.fC}
	if s.priority != nil {
		cd.Priority = *s.priority
	}
	signer := s.innerSigner
	if signer == nil {
		signer = s.key.Priv
	}
	if err := cd.SetSignature(signer); err != nil {
		panic(err)
	}
	return cd, j
}

// reheader copies the honest header with new consensus data (inside the header hash) and signs
// it; the vote section is left empty.
func (fx *fixture) reheader(cd *ucon.BlockConsensusData, signer *ecdsa.PrivateKey) *types.Header {
	h := fx.honest.Header()
	b, err := ucon.PrepareConsensusData(h, cd)
	if err != nil {
		panic(err)
	}
	h.Consensus = b
	h.Validator = nil
	sig, err := crypto.Sign(h.Hash().Bytes(), signer)
	if err != nil {
		panic(err)
	}
	h.Signature = sig
	return h
}

// findIndex returns the first round index in [1,limit] accepted by ok.
func (fx *fixture) findIndex(limit uint32, ok func(idx uint32) bool) uint32 {
	for i := uint32(1); i <= limit; i++ {
		if ok(i) {
			return i
		}
	}
	return 0
}

// winnerAt returns an entitled voter with proposer seats at idx (preferring forger keys).
func (fx *fixture) winnerAt(idx uint32, onlyForger bool) *val {
	_, p := fx.seatsAt(idx)
	var any *val
	for i, v := range fx.vals {
		if !v.voter() || p[i] == 0 {
			continue
		}
		if v.forger {
			return v
		}
		if any == nil {
			any = v
		}
	}
	if onlyForger {
		return nil
	}
	return any
}

func keysNote(es []entry) string {
	for _, e := range es {
		if !e.v.forger {
			return "forger needs every voter key"
		}
	}
	return "forger keys only"
}

func needAll(vs ...*val) string {
	for _, v := range vs {
		if !v.forger {
			return " (needs a key outside the forger's set)"
		}
	}
	return ""
}
