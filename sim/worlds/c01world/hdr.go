package c01world

import (
	"fmt"
	"os"

	"verifsim/worlds/chainkit"

	"github.com/youchainhq/go-youchain/common"
	"github.com/youchainhq/go-youchain/core/types"
	"github.com/youchainhq/go-youchain/crypto"
)

// ---- forgeries that change header.Consensus (inside the header hash): every vote has to be
// signed anew for the new hash, by keys the forger holds ----

// withFreshQuorum completes h with the precommits of every entitled voter at idx.
func (fx *fixture) withFreshQuorum(kind string, h *types.Header, idx uint32, why string) *fcase {
	es := fx.freshQuorum(idx, h.Hash())
	h.Validator = section(idx, es, aggregate(es), false)
	return &fcase{kind: kind, hdr: h, legit: weightOf(es, true), claimed: weightOf(es, false),
		why: why + "; votes: valid precommits of every entitled voter for the new hash (" + keysNote(es) + ") | entries: " + entryNames(es)}
}

// quorumIndex finds a round index (from `from` on) at which the entitled voters reach the
// quorum and cond holds.
func (fx *fixture) quorumIndex(limit uint32, cond func(idx uint32) bool) uint32 {
	return fx.findIndex(limit, func(i uint32) bool { return fx.honestWeightAt(i) >= fx.Q && cond(i) })
}

func (fx *fixture) forgerVoters() []*val {
	var out []*val
	for _, v := range fx.vals {
		if v.forger && v.voter() {
			out = append(out, v)
		}
	}
	return out
}

// loweredThreshold: the author writes a small ValidatorThreshold into the consensus data it
// signs. Voters: entitled voters whose keys the forger holds, reduced until their real weight
// (under the protocol's committee size) is below the protocol quorum.
func (fx *fixture) loweredThreshold() []*fcase {
	r := fx.r
	fv := fx.forgerVoters()
	if len(fv) == 0 {
		return nil
	}
	minimal := r.C.Chance("lowered-single-key", 1, 2)
	if minimal {
		fv = fv[:1] // the minimal adversary: one validator key
	}
	tps := []uint64{1, 2, 3, 5, 10, 100, fx.T / 2}
	tp := tps[r.C.Intn("lowered-T", len(tps))]
	if tp >= fx.T {
		tp = fx.T / 2 // "lowered" means below the protocol's size
	}
	qp := tp * 685 / 1000 // what the forger aims at; not part of the oracle
	type plan struct {
		idx     uint32
		p       *val
		voters  []*val
		real    uint64
		claimed uint64
	}
	var best *plan
	for i := uint32(1); i <= 24; i++ {
		w, p := fx.seatsAt(i)
		var prop *val
		for _, v := range fv {
			if p[fx.pos(v)] > 0 {
				prop = v
				break
			}
		}
		if prop == nil {
			continue
		}
		voters := append([]*val(nil), fv...)
		var real uint64
		for _, v := range voters {
			real += uint64(w[fx.pos(v)])
		}
		for real >= fx.Q && len(voters) > 0 {
			last := voters[len(voters)-1]
			real -= uint64(w[fx.pos(last)])
			voters = voters[:len(voters)-1]
		}
		if len(voters) == 0 {
			// the proposer's own vote is listed below when no voter is left: it counts with its
			// real weight, so an index at which the proposer alone is a legitimate quorum is
			// not a forgery (found by the thorough tier: a whale proposer, declared size equal
			// to the protocol's)
			real = uint64(w[fx.pos(prop)])
			if real >= fx.Q {
				continue
			}
			voters = []*val{prop}
		}
		var claimed uint64
		for _, v := range voters {
			e := fx.mkSeats(v, i, tp)
			claimed += uint64(e)
		}
		pl := &plan{idx: i, p: prop, voters: voters, real: real, claimed: claimed}
		if best == nil {
			best = pl
		}
		if claimed >= qp {
			best = pl
			break
		}
	}
	if best == nil {
		return nil
	}
	sp := fx.honestSpec(best.p, best.idx)
	sp.fT = tp
	cd, _ := fx.credential(sp)
	h := fx.reheader(cd, best.p.key.Priv)
	var es []entry
	listed := best.voters
	if len(listed) == 0 {
		listed = []*val{best.p}
	}
	for _, v := range listed {
		e := fx.mkVote(v, v.key, v.rec.Stake, fx.ctx.TotalStake, fx.ctx.Seed, best.idx, stepPrecommit, tp, h.Hash(), fx.N, best.idx)
		e.tag = fmt.Sprintf("T'=%d", tp)
		es = append(es, e)
	}
	h.Validator = section(best.idx, es, aggregate(es), false)
	if best.claimed >= qp {
		r.Probe("lowered-threshold-reaches-declared-quorum")
	}
	c := &fcase{kind: "author-lowered-validator-threshold", hdr: h, legit: best.real, claimed: best.claimed,
		why: fmt.Sprintf("header.Consensus declares ValidatorThreshold=%d (protocol: %d), signed by proposer %s at round index %d; voters %s hold real weight %d under the protocol committee (< quorum %d), their seats under the declared size sum to %d (declared-size quorum %d); forger keys only, single-key adversary=%v | entries: %s",
			tp, fx.T, best.p.name(), best.idx, names(listed), best.real, fx.Q, best.claimed, qp, minimal, entryNames(es))}
	if c.legit >= fx.Q {
		panic("c01world: lowered-threshold forgery has a legitimate quorum")
	}
	return []*fcase{c}
}

// loweredThresholdNoVotes: declared committee size 0 or 1 makes the declared quorum 0; no vote
// is listed at all, the aggregate field holds some well-formed signature.
func (fx *fixture) loweredThresholdNoVotes() []*fcase {
	fv := fx.forgerVoters()
	if len(fv) == 0 {
		return nil
	}
	var p *val
	idx := fx.findIndex(24, func(i uint32) bool {
		_, ps := fx.seatsAt(i)
		for _, v := range fv {
			if ps[fx.pos(v)] > 0 {
				p = v
				return true
			}
		}
		return false
	})
	if idx == 0 {
		return nil
	}
	tp := uint64(1 - fx.r.C.Intn("declared-zero", 2))
	sp := fx.honestSpec(p, idx)
	sp.fT = tp
	cd, _ := fx.credential(sp)
	h := fx.reheader(cd, p.key.Priv)
	s := p.key.BlsSk.Sign(chainkit.VotePayload(h.Hash(), fx.N, idx)).Compress()
	h.Validator = section(idx, nil, s[:], false)
	return []*fcase{{kind: "author-lowered-validator-threshold-no-votes", hdr: h,
		why: fmt.Sprintf("header.Consensus declares ValidatorThreshold=%d (protocol: %d), signed by proposer %s at round index %d; NO votes are listed, the aggregate field carries the proposer's own well-formed BLS signature; one validator key suffices", tp, fx.T, p.name(), idx)}}
}

func (fx *fixture) pos(v *val) int {
	for i, x := range fx.vals {
		if x == v {
			return i
		}
	}
	panic("c01world: unknown validator")
}

// mkSeats is v's precommit seat count at idx for committee size T.
func (fx *fixture) mkSeats(v *val, idx uint32, T uint64) uint32 {
	e := fx.mkVote(v, v.key, v.rec.Stake, fx.ctx.TotalStake, fx.ctx.Seed, idx, stepPrecommit, T, common.Hash{}, fx.N, idx)
	return e.w
}

// raisedProposerThreshold: the author declares a large ProposerThreshold so that the seats (and
// with them the priority draws) of its credential grow, or so that a non-winner wins.
func (fx *fixture) raisedProposerThreshold() []*fcase {
	r := fx.r
	wantLoser := r.C.Chance("raised-tp-for-a-loser", 1, 2)
	var p *val
	search := func(loser bool) uint32 {
		return fx.quorumIndex(40, func(i uint32) bool {
			_, ps := fx.seatsAt(i)
			for k, v := range fx.vals {
				if !v.voter() {
					continue
				}
				if (ps[k] == 0) == loser {
					p = v
					return true
				}
			}
			return false
		})
	}
	idx := search(wantLoser)
	if idx == 0 {
		idx = search(!wantLoser)
	}
	if idx == 0 {
		return nil
	}
	_, ps := fx.seatsAt(idx)
	jProt := ps[fx.pos(p)]
	big := []uint64{fx.Tp * 40, 100000}[r.C.Intn("raised-tp", 2)]
	sp := fx.honestSpec(p, idx)
	sp.sortTp, sp.fTp = big, big
	cd, j := fx.credential(sp)
	if j == jProt {
		return nil
	}
	h := fx.reheader(cd, p.key.Priv)
	return []*fcase{fx.withFreshQuorum("author-raised-proposer-threshold", h, idx,
		fmt.Sprintf("header.Consensus declares ProposerThreshold=%d (protocol: %d): proposer %s claims %d seats at round index %d, the protocol threshold gives %d%s", big, fx.Tp, p.name(), j, idx, jProt, needAll(p)))}
}

func (fx *fixture) zeroSeatProposer(claimOne bool) []*fcase {
	var p *val
	idx := fx.quorumIndex(40, func(i uint32) bool {
		_, ps := fx.seatsAt(i)
		for k, v := range fx.vals {
			if v.voter() && ps[k] == 0 {
				p = v
				return true
			}
		}
		return false
	})
	if idx == 0 {
		return nil
	}
	sp := fx.honestSpec(p, idx)
	kind, claim := "proposer-zero-seats", "0 seats (priority = first draw)"
	if claimOne {
		one := uint32(1)
		sp.subUsers = &one
		kind, claim = "proposer-zero-seats-claims-one", "1 seat"
	}
	cd, j := fx.credential(sp)
	if j != 0 {
		panic("c01world: zero-seat search is inconsistent")
	}
	h := fx.reheader(cd, p.key.Priv)
	return []*fcase{fx.withFreshQuorum(kind, h, idx,
		fmt.Sprintf("proposer %s did NOT win the proposer lottery at round index %d (0 seats under the protocol ProposerThreshold %d) and presents its credential claiming %s%s", p.name(), idx, fx.Tp, claim, needAll(p)))}
}

func (fx *fixture) proposerOtherIndex() []*fcase {
	var p *val
	a := fx.findIndex(40, func(i uint32) bool {
		p = fx.winnerAt(i, false)
		return p != nil && fx.honestWeightAt(i+1) >= fx.Q
	})
	if a == 0 {
		return nil
	}
	sp := fx.honestSpec(p, a)
	sp.fieldIdx = a + 1
	cd, j := fx.credential(sp)
	h := fx.reheader(cd, p.key.Priv)
	return []*fcase{fx.withFreshQuorum("proposer-other-index", h, a+1,
		fmt.Sprintf("proposer %s presents its winning credential of round index %d (%d seats) in a header for round index %d%s", p.name(), a, j, a+1, needAll(p)))}
}

func (fx *fixture) signedByOtherKey() []*fcase {
	var x *val
	for _, v := range fx.vals {
		if v != fx.proposer && v.voter() && (x == nil || v.forger && !x.forger) {
			x = v
		}
	}
	if x == nil {
		return nil
	}
	h := fx.honest.Header()
	sig, err := crypto.Sign(h.Hash().Bytes(), x.key.Priv)
	if err != nil {
		panic(err)
	}
	h.Signature = sig
	es := fx.honestEntries()
	return []*fcase{{kind: "header-signed-by-other-key", hdr: h, legit: weightOf(es, true), claimed: weightOf(es, false),
		why: fmt.Sprintf("the honest header and votes, but header.Signature is by %s instead of the credential's owner %s", x.name(), fx.proposer.name())}}
}

func (fx *fixture) credentialSignedByOtherKey() []*fcase {
	var x *val
	for _, v := range fx.vals {
		if v != fx.proposer && v.voter() && (x == nil || v.forger && !x.forger) {
			x = v
		}
	}
	if x == nil {
		return nil
	}
	idx := fx.ctx.Index
	sp := fx.honestSpec(fx.proposer, idx)
	sp.innerSigner = x.key.Priv
	cd, j := fx.credential(sp)
	h := fx.reheader(cd, x.key.Priv)
	return []*fcase{fx.withFreshQuorum("credential-signed-by-other-key", h, idx,
		fmt.Sprintf("the winning VRF credential of %s (%d seats) is signed (consensus data and header) by %s, who presents it as its own", fx.proposer.name(), j, x.name()))}
}

func (fx *fixture) outsiderProposer() []*fcase {
	if len(fx.outside) == 0 {
		return nil
	}
	o := fx.outside[0]
	idx := fx.ctx.Index
	sp := fx.honestSpec(fx.proposer, idx)
	sp.key = o
	one := uint32(1)
	sp.subUsers = &one
	cd, _ := fx.credential(sp)
	h := fx.reheader(cd, o.Priv)
	return []*fcase{fx.withFreshQuorum("proposer-outsider", h, idx, fmt.Sprintf("the proposer key %s is not in the look-back validator set", o.Name()))}
}

func (fx *fixture) inflatedSubUsers() []*fcase {
	p := fx.proposer
	idx := fx.ctx.Index
	sp := fx.honestSpec(p, idx)
	_, j := fx.credential(sp)
	claim := j + uint32(1+fx.r.C.Intn("subusers-plus", 5))
	sp.subUsers = &claim
	cd, _ := fx.credential(sp)
	h := fx.reheader(cd, p.key.Priv)
	return []*fcase{fx.withFreshQuorum("proposer-inflated-seats", h, idx,
		fmt.Sprintf("proposer %s won %d seats at round index %d and claims %d (priority computed over the claimed draws)%s", p.name(), j, idx, claim, needAll(p)))}
}

func (fx *fixture) wrongPriority() []*fcase {
	p := fx.proposer
	idx := fx.ctx.Index
	sp := fx.honestSpec(p, idx)
	max := common.HexToHash("0xffffffffffffffffffffffffffffffffffffffffffffffffffffffffffffffff")
	sp.priority = &max
	cd, j := fx.credential(sp)
	h := fx.reheader(cd, p.key.Priv)
	return []*fcase{fx.withFreshQuorum("proposer-wrong-priority", h, idx,
		fmt.Sprintf("proposer %s (%d seats) declares the maximal priority 0xff..ff instead of the one its VRF value gives%s", p.name(), j, needAll(p)))}
}

// rogueKeyCase: a validator that registered the BLS public key g^x - sum(pk_i) (see
// rogueValKey) builds its own block, lists the precommit credentials the honest voters revealed
// when they voted for the HONEST block at this round index (sortition proofs do not name the
// block), and supplies H(payload)^x as the "aggregate". No honest validator signed this hash.
func (fx *fixture) rogueKeyCase() []*fcase {
	var R *val
	for _, v := range fx.vals {
		if v.rogue {
			R = v
		}
	}
	if R == nil || R.rec == nil {
		return nil
	}
	vidx := fx.ctx.Index // the votes keep the index at which the honest proofs were made
	seats := func(i uint32) uint32 {
		_, ps := fx.seatsAt(i)
		return ps[fx.pos(R)]
	}
	pidx := vidx
	if seats(pidx) == 0 {
		pidx = fx.findIndex(60, func(i uint32) bool { return seats(i) > 0 })
	}
	if pidx == 0 {
		return nil
	}
	cd, pj := fx.credential(fx.honestSpec(R, pidx))
	h := fx.reheader(cd, R.key.Priv)
	var es []entry
	own := fx.mkVote(R, R.key, R.rec.Stake, fx.ctx.TotalStake, fx.ctx.Seed, vidx, stepPrecommit, fx.T, h.Hash(), fx.N, vidx)
	own.tag = "rogue"
	for _, v := range fx.vals {
		if !v.voter() {
			continue
		}
		if e, ok := fx.honestEntryOf(v); ok {
			e.legit, e.tag = false, "hijacked"
			es = append(es, e)
			continue
		}
		// no revealed credential (zero seats at this index): listed with a useless proof, only
		// so that its public key enters the verifier's key list
		es = append(es, entry{v: v, sv: own.sv, tag: "filler"})
		es[len(es)-1].sv.VoterIdx = v.idx
	}
	es = append(es, own)
	agg := R.key.BlsSk.Sign(chainkit.VotePayload(h.Hash(), fx.N, vidx)).Compress()
	h.Validator = section(vidx, es, agg[:], false)
	return []*fcase{{kind: "rogue-bls-key", hdr: h, legit: 0, claimed: weightOf(es, false),
		why: fmt.Sprintf("validator %s registered the BLS public key g^x - sum(pk of every other online chamber validator) (no proof of possession at registration); it proposes its own block (credential of round index %d, %d seats), lists the precommit credentials the honest voters revealed for the honest block at round index %d and signs ALONE: the aggregate field is H(payload)^x; one registered validator, no other key | entries: %s",
			R.name(), pidx, pj, vidx, entryNames(es))}}
}

// ---- observations: offered, logged and counted, not judged (see Assumptions) ----

func (fx *fixture) obsNonVoterProposer(house bool) []*fcase {
	var p *val
	idx := fx.quorumIndex(24, func(i uint32) bool {
		_, ps := fx.seatsAt(i)
		for k, v := range fx.vals {
			if v.rec == nil || v.voter() || ps[k] == 0 {
				continue
			}
			if house == !v.chamber {
				p = v
				return true
			}
		}
		return false
	})
	if idx == 0 {
		return nil
	}
	cd, j := fx.credential(fx.honestSpec(p, idx))
	h := fx.reheader(cd, p.key.Priv)
	kind := "offline-proposer"
	if house {
		kind = "house-proposer"
	}
	c := fx.withFreshQuorum(kind, h, idx, fmt.Sprintf("proposer %s (online=%v chamber=%v) presents a credential with %d seats computed from its own stake against the online chamber stake", p.name(), p.online, p.chamber, j))
	c.observe = true
	return []*fcase{c}
}

func (fx *fixture) obsVotesAtLaterIndex() []*fcase {
	hi := fx.ctx.Index
	k := uint32(0)
	for i := hi + 1; i <= hi+12; i++ {
		if fx.honestWeightAt(i) >= fx.Q {
			k = i
			break
		}
	}
	if k == 0 {
		return nil
	}
	h := fx.honest.Header()
	es := fx.freshQuorum(k, h.Hash())
	h.Validator = section(k, es, aggregate(es), false)
	return []*fcase{{kind: "votes-at-later-index", observe: true, hdr: h, legit: weightOf(es, true), claimed: weightOf(es, false),
		why: fmt.Sprintf("the honest header (proposed at round index %d) with valid precommits of every entitled voter made at round index %d (marked-block carry-over)", hi, k)}}
}

// obsVotesAtEarlierIndex: the vote section declares an EARLIER round index than the proposal.
func (fx *fixture) obsVotesAtEarlierIndex() []*fcase {
	var p *val
	a := fx.findIndex(24, func(i uint32) bool {
		if i < 2 {
			return false
		}
		p = fx.winnerAt(i, false)
		return p != nil && fx.honestWeightAt(i-1) >= fx.Q
	})
	if a == 0 {
		return nil
	}
	cd, _ := fx.credential(fx.honestSpec(p, a))
	h := fx.reheader(cd, p.key.Priv)
	c := fx.withFreshQuorum("votes-at-earlier-index", h, a-1, fmt.Sprintf("block proposed honestly at round index %d by %s, precommits made at round index %d", a, p.name(), a-1))
	c.observe = true
	return []*fcase{c}
}

// zeroSeatVoter: an entitled voter that drew ZERO seats claims the missing weight. Tried at the
// honest index first, then at any other index at which somebody wins the proposer lottery.
func (fx *fixture) zeroSeatVoter() []*fcase {
	if cs := fx.voteCase("zero-seat-voter"); cs != nil {
		return cs
	}
	var z *val
	idx := fx.findIndex(40, func(i uint32) bool {
		if i == fx.ctx.Index || fx.winnerAt(i, false) == nil {
			return false
		}
		w, _ := fx.seatsAt(i)
		for k, v := range fx.vals {
			if v.voter() && w[k] == 0 {
				z = v
				return true
			}
		}
		return false
	})
	if idx == 0 {
		return nil
	}
	ms, sum := fx.bestBelow(idx)
	p, ok := fx.atIndex(idx, ms)
	if !ok {
		return nil
	}
	need := uint32(fx.Q - sum)
	e := fx.mkVote(z, z.key, z.rec.Stake, fx.ctx.TotalStake, fx.ctx.Seed, idx, stepPrecommit, fx.T, p.hdr.Hash(), fx.N, idx)
	if e.w != 0 {
		panic("c01world: zero-seat voter search is inconsistent")
	}
	e.w, e.sv.Votes, e.tag = need, need, "zero-seat"
	es := append(p.es, e)
	p.hdr.Validator = section(idx, es, aggregate(es), false)
	c := &fcase{kind: "zero-seat-voter", hdr: p.hdr, legit: weightOf(es, true), claimed: weightOf(es, false),
		why: fmt.Sprintf("%s; valid votes of weight %d < quorum %d plus entitled voter %s, who drew 0 seats at this index, claiming %d | entries: %s", p.note, sum, fx.Q, z.name(), need, entryNames(es))}
	if c.legit >= fx.Q {
		panic("c01world: zero-seat forgery has a legitimate quorum")
	}
	return []*fcase{c}
}

// bestBelow returns the heaviest set of entitled voters (with seats) at idx below the quorum.
func (fx *fixture) bestBelow(idx uint32) ([]*val, uint64) {
	w, _ := fx.seatsAt(idx)
	var voters []int
	for i, v := range fx.vals {
		if v.voter() && w[i] > 0 {
			voters = append(voters, i)
		}
	}
	best, bestSum := 0, uint64(0)
	for mask := 0; mask < 1<<uint(len(voters)); mask++ {
		var s uint64
		for b, vi := range voters {
			if mask&(1<<uint(b)) != 0 {
				s += uint64(w[vi])
			}
		}
		if s < fx.Q && s > bestSum {
			best, bestSum = mask, s
		}
	}
	var ms []*val
	for b, vi := range voters {
		if best&(1<<uint(b)) != 0 {
			ms = append(ms, fx.vals[vi])
		}
	}
	return ms, bestSum
}

// obsCertThreshold: the author declares CertValThreshold=1. Nothing in this (non-certificate)
// round uses it, but verifyConsensusFieldMain (consensus.go:309) and VerifyAcHeader
// (consensus.go:680) later take the certificate committee size from the consensus data of the
// certificate look-back header, i.e. from this field.
func (fx *fixture) obsCertThreshold() []*fcase {
	p := fx.proposer
	idx := fx.ctx.Index
	sp := fx.honestSpec(p, idx)
	sp.fC = 1
	cd, _ := fx.credential(sp)
	h := fx.reheader(cd, p.key.Priv)
	c := fx.withFreshQuorum("declared-cert-threshold-1", h, idx, fmt.Sprintf("the honest credential of %s with CertValThreshold=1 declared (protocol: %d)", p.name(), fx.Tc))
	c.observe = true
	return []*fcase{c}
}

func (fx *fixture) obsRoundFieldMismatch() []*fcase {
	p := fx.proposer
	idx := fx.ctx.Index
	sp := fx.honestSpec(p, idx)
	sp.round = fx.N + 7
	cd, _ := fx.credential(sp)
	h := fx.reheader(cd, p.key.Priv)
	var es []entry
	for _, v := range fx.vals {
		if !v.voter() {
			continue
		}
		e := fx.mkVote(v, v.key, v.rec.Stake, fx.ctx.TotalStake, fx.ctx.Seed, idx, stepPrecommit, fx.T, h.Hash(), sp.round, idx)
		if e.w == 0 {
			continue
		}
		e.legit, e.tag = true, "round-field"
		es = append(es, e)
	}
	h.Validator = section(idx, es, aggregate(es), false)
	return []*fcase{{kind: "round-field-mismatch", observe: true, hdr: h, legit: weightOf(es, true), claimed: weightOf(es, false),
		why: fmt.Sprintf("header number %d, consensus data declares round %d; the votes sign hash||%d||index", fx.N, sp.round, sp.round)}}
}

// ---- the case loop ----

type gen struct {
	name string
	f    func() []*fcase
}

func (fx *fixture) runCases() {
	r := fx.r
	// positive controls, every run
	fx.offer(fx.controlHonest())
	fx.offer(fx.controlSuperQuorum())
	for _, c := range fx.boundaryCases() {
		fx.offer(c)
	}
	gens := []gen{
		{"sub-quorum", fx.subQuorumCase},
		{"no-votes", fx.noVotesCases},
	}
	for _, n := range vforgerOrder {
		n := n
		if n == "zero-seat-voter" {
			gens = append(gens, gen{n, fx.zeroSeatVoter})
			continue
		}
		gens = append(gens, gen{n, func() []*fcase { return fx.voteCase(n) }})
	}
	for _, n := range []string{"aggregate-of-subset", "aggregate-garbage", "aggregate-empty", "aggregate-other-message", "lone-vote-bad-signature", "votes-in-house-section"} {
		n := n
		gens = append(gens, gen{n, func() []*fcase { return fx.aggregateCases(n) }})
	}
	gens = append(gens,
		gen{"validator-field-garbage", fx.garbageSectionCases},
		gen{"author-lowered-validator-threshold", fx.loweredThreshold},
		gen{"author-lowered-validator-threshold-2", fx.loweredThreshold},
		gen{"author-lowered-validator-threshold-no-votes", fx.loweredThresholdNoVotes},
		gen{"author-raised-proposer-threshold", fx.raisedProposerThreshold},
		gen{"proposer-zero-seats", func() []*fcase { return fx.zeroSeatProposer(false) }},
		gen{"proposer-zero-seats-claims-one", func() []*fcase { return fx.zeroSeatProposer(true) }},
		gen{"proposer-other-index", fx.proposerOtherIndex},
		gen{"header-signed-by-other-key", fx.signedByOtherKey},
		gen{"credential-signed-by-other-key", fx.credentialSignedByOtherKey},
		gen{"proposer-outsider", fx.outsiderProposer},
		gen{"proposer-inflated-seats", fx.inflatedSubUsers},
		gen{"proposer-wrong-priority", fx.wrongPriority},
		gen{"rogue-bls-key", fx.rogueKeyCase},
		gen{"combo-1", fx.comboCase},
		gen{"combo-2", fx.comboCase},
		gen{"combo-3", fx.comboCase},
		gen{"obs-offline-proposer", func() []*fcase { return fx.obsNonVoterProposer(false) }},
		gen{"obs-house-proposer", func() []*fcase { return fx.obsNonVoterProposer(true) }},
		gen{"obs-votes-at-later-index", fx.obsVotesAtLaterIndex},
		gen{"obs-votes-at-earlier-index", fx.obsVotesAtEarlierIndex},
		gen{"obs-round-field-mismatch", fx.obsRoundFieldMismatch},
		gen{"obs-declared-cert-threshold", fx.obsCertThreshold},
	)
	for _, g := range gens {
		if fx.poisoned {
			break
		}
		if os.Getenv("C01_GATES") != "" {
			// aid for hand-written replays: position of this case's gate in the choice log
			fmt.Fprintf(os.Stderr, "gate %-46s choice #%d\n", g.name, len(r.C.Log()))
		}
		if !r.C.Chance("case:"+g.name, 4, 5) {
			continue
		}
		cs := g.f()
		if len(cs) == 0 {
			r.Probe("not-applicable." + g.name)
			continue
		}
		for _, c := range cs {
			fx.offer(c)
		}
	}
}
