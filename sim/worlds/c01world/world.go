package c01world

import (
	crand "crypto/rand"
	"fmt"
	"time"

	"verifsim/kit"
	"verifsim/simdisk"
	"verifsim/worlds/chainkit"
	"verifsim/worlds/chainworld"

	"github.com/youchainhq/go-youchain/common"
	"github.com/youchainhq/go-youchain/logging"
	"github.com/youchainhq/go-youchain/params"
)

type critExit struct{}

// runWorld is chainworld.Run (worlds/chainworld/base.go, copied because it is shared and must
// not be edited) with one addition: validator `rogue` (if >= 0) is registered at genesis with a
// crafted BLS public key, and its key is withheld from the honest builder (a rogue validator
// stays silent: signatures made with its secret do not verify under the key it registered).
func runWorld(r *kit.Run, setup chainworld.Setup, rogue int, f func(w *chainworld.World, rogueKey *chainkit.ValKey)) {
	oldRand := crand.Reader
	crand.Reader = kit.NewStream(r.Seed, r.Index)
	defer func() {
		crand.Reader = oldRand
		logging.SimCrit = nil
	}()
	err := kit.Bubble(func() {
		w := &chainworld.World{R: r, Nonces: map[common.Address]uint64{}}
		logging.SimCrit = func(msg string, ctx []interface{}) {
			w.Crit = append(w.Crit, fmt.Sprintf("%s %v", msg, ctx))
			r.Report("logging-crit", "the code under test called logging.Crit (process exit): %s %v", msg, ctx)
			panic(critExit{})
		}
		keys := chainkit.Keys()
		for i := 0; i < setup.NVals; i++ {
			role := params.RoleSenator
			if i == 0 {
				role = params.RoleChancellor
			}
			if setup.House[i] {
				role = params.RoleHouse
			}
			st := params.ValidatorOnline
			if setup.Offline[i] {
				st = params.ValidatorOffline
			}
			w.Vals = append(w.Vals, chainkit.GenVal{Key: keys[i], Stake: setup.Stakes[i], Role: role, Status: st})
		}
		var rogueKey *chainkit.ValKey
		if rogue >= 0 {
			rogueKey = rogueValKey(w.Vals, rogue)
			w.Vals[rogue].Key = rogueKey
		}
		w.Genesis = chainkit.MakeGenesis(w.Vals, params.YouV5)
		// validator 1 (an online Senator) is operated by client 1, so that the run can have it
		// deposit: the validator set then changes at a staking-period end inside the chain
		if gv, ok := w.Genesis.Validators[w.Vals[1].Key.Addr]; ok && rogue != 1 {
			gv.OperatorAddress = chainworld.ClientAddr(1)
			w.Genesis.Validators[w.Vals[1].Key.Addr] = gv
		}
		var vkeys []*chainkit.ValKey
		for i, v := range w.Vals {
			if i != rogue {
				vkeys = append(vkeys, v.Key)
			}
		}
		b, err := chainkit.NewBuilder(simdisk.NewNoLog(), w.Genesis, vkeys, setup.PoolCfg)
		if err != nil {
			panic("c01world: builder: " + err.Error())
		}
		w.B = b
		kit.Wait()
		defer func() {
			b.Stop(kit.Wait)
			time.Sleep(10 * time.Second) // let tickers observe their quit channels
			kit.Wait()
		}()
		f(w, rogueKey)
	})
	if err != nil {
		panic(fmt.Sprintf("c01world: %v", err))
	}
}

// rogueValKey returns a copy of validator `rogue`'s key material whose REGISTERED BLS public key
// is g^x - sum(pk_i) over every other online chamber validator i, x being the rogue's own
// (known) BLS secret. Validator registration (staking/types.go:142 TxCreateValidator.Validate)
// only requires a non-empty BlsPubKey; there is no proof of possession. With that key, ONE
// signature H(m)^x verifies as the same-message aggregate (bls.go:85 VerifyAggregatedOne) of the
// rogue and all those validators. Built from the exported BLS API only: the negative of a
// public key is its compressed encoding with the sign flag (0x20 of the first byte) flipped.
func rogueValKey(vals []chainkit.GenVal, rogue int) *chainkit.ValKey {
	rk := *vals[rogue].Key
	pk, err := chainkit.BlsMgr.DecPublicKey(rk.BlsPub)
	if err != nil {
		panic(err)
	}
	for i, v := range vals {
		if i == rogue || v.Status != params.ValidatorOnline {
			continue
		}
		if kind, _ := params.KindOfRole(v.Role); kind != params.KindChamber {
			continue
		}
		neg := append([]byte(nil), v.Key.BlsPub...)
		neg[0] ^= 0x20
		np, err := chainkit.BlsMgr.DecPublicKey(neg)
		if err != nil {
			panic(err)
		}
		if err := pk.Aggregate(np); err != nil {
			panic(err)
		}
	}
	c := pk.Compress()
	rk.BlsPub = append([]byte(nil), c[:]...)
	return &rk
}
