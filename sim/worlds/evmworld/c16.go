package evmworld

import (
	"fmt"
	"sort"
	"strings"
	"time"

	"verifsim/kit"
)

func init() {
	kit.Register(&kit.Check{
		Prop: "C16", Name: "evm", World: "EVM", Level: "fault_enumeration",
		Rule: "one run = one seeded multi-contract program from a small assembler (2-6 contracts: sentinel SSTOREs, LOGs, value-carrying CALL/CALLCODE/" +
			"DELEGATECALL/STATICCALL with explicit gas operands, CREATE/CREATE2 with generated init and runtime code, SELFDESTRUCT to others and to self, " +
			"BALANCE/EXTCODESIZE/EXTCODEHASH reads, endings STOP/RETURN/REVERT/INVALID/stack underflow/bad jump; 1 in 14 programs is a two-contract recursion to the call depth limit), " +
			"executed as 1-4 transactions (evm.Call/evm.Create + Finalise(true), optionally Commit+reopen) on one real StateDB. Pass 1 records every executed step under a vm.Tracer; " +
			"each further pass re-runs the identical program on an identical fresh state with the gas of one transaction, or the PUSH4 gas operand of one inner call, set so that " +
			"out-of-gas strikes at one recorded step (every step up to 96 passes per program, else an evenly spaced seeded sample), plus passes that starve the code deposit of a creation. " +
			"Oracle, from the Tracer and vm.StateDB seams only: whole-state observation (balance, nonce, code hash/size, 4 storage slots current+committed, exist/empty, suicided for every " +
			"address any mutator was ever called with; all logs; refund) just before each call op and at the caller's next step; failed frame => identical (creator nonce +1 exempt); " +
			"static frame => identical whatever the outcome; successful frame and Finalise => sum of balances changes exactly by self-destruct-to-self value; gas never grows within a frame, " +
			"gas returned <= gas the frame started with, leftOverGas <= gas. A run is non-trivial when at least one frame failed.",
		Real: []string{"core/vm (EVM, interpreter, instructions, gas tables, jump table, precompiles 1/2/4)", "core.NewEVMContext/CanTransfer/Transfer",
			"core/state (StateDB, journal, state objects, Finalise, Commit)", "state.Database + trie over youdb.MemDatabase"},
		Stub: []string{"block context (one synthetic header)", "gas purchase/refund and intrinsic gas of core/state_transition.go (the harness calls evm.Call/evm.Create like TransitionDb does)"},
		FaultsNotInjected: []string{
			"evm.Cancel (abort flag): needs a second goroutine; not part of C16",
			"database read errors under the StateDB: C10/C13 territory",
			"RIPEMD precompile (0x03) as call target: its touch is deliberately kept across reverts (journal.dirty), excluded from programs and universe",
			"top-level insufficient balance: excluded by the transaction pre-check in production",
		},
		Assumptions: []string{
			"control flow of generated code is straight-line (no JUMPI): aborts come from gas placement and from the generated endings, not from data-dependent branches",
			"observations cover the fixed accounts plus every address a StateDB mutator was called with in a discovery pass of the same program; a pass that mutates any other address silences the oracle for the rest of that pass and is counted (pass.universe-miss)",
			"exemptions, all from the EVM specification: gas; the creator's nonce increment of a failed CREATE/CREATE2; for a static frame that SUCCEEDS, an account that did not exist before and is an empty account object afterwards counts as unchanged (EIP-161: both states are 'dead', indistinguishable to the EVM, and any frame may touch an account) — failed frames are compared strictly, existence included",
			"'burnt' = the balance an account holds at the moment it executes SELFDESTRUCT naming itself (credited to itself, then zeroed by the op) plus whatever balance a self-destructed account holds when Finalise removes it (value it received after its SELFDESTRUCT in the same transaction)",
			"fault counters count every checked pass: a natural failure (e.g. a REVERT ending) fires once in the reference pass and again in every fault pass that reaches it",
		},
		QuickBudget: 40 * time.Second, ThoroughBudget: 12 * time.Minute,
		MinRuns:    30,
		Exec:       runC16,
		PanicClass: panicInRepo("evm-panic"),
		// reach probes every batch is expected to hit (listed in the evidence as probes_never_hit otherwise)
		ExpectedProbes: []string{"continued on a reopened state", "depth failure of a value-carrying call", "empty account touched only inside failed frames survives Finalise", "failed frame after inner success", "failed frame containing create", "failed frame containing self-destruct", "failed frame had visible effects before the abort", "failed frame in static context", "nested failure inside failed frame", "recursion program", "revert in 2nd+ transaction (after Finalise)", "self-destruct to another account", "self-destruct to self", "static frame materialised an empty account object (dead before and after, EIP-161)", "static frame succeeded", "static frame with nested call", "static violation by CALL", "static violation by CREATE", "static violation by CREATE2", "static violation by LOG0", "static violation by LOG1", "static violation by LOG2", "static violation by SELFDESTRUCT", "static violation by SSTORE", "value burnt with a self-destructed account at Finalise"},
	})
}

const (
	maxFaultPasses          = 96
	maxFaultPassesRecursion = 10
)

func flush(r *kit.Run, o *oracle) {
	keys := make([]string, 0, len(o.faults))
	for k := range o.faults {
		keys = append(keys, k)
	}
	sort.Strings(keys)
	for _, k := range keys {
		r.Count("fault."+k, int64(o.faults[k]))
		r.Nontrivial()
	}
	keys = keys[:0]
	for k := range o.probes {
		keys = append(keys, k)
	}
	sort.Strings(keys)
	for _, k := range keys {
		r.Count("probe."+k, int64(o.probes[k]))
	}
	r.Count("frames.failed-and-compared", int64(o.failedFrames))
}

func runC16(r *kit.Run) {
	prog := generate(r.C)
	for _, l := range prog.Describe() {
		r.Logf("%s", l)
	}
	if prog.Recursion {
		r.Probe("recursion program")
	}
	// pass 0: discovery of the addresses the program can mutate (no oracle)
	u := fixedUniverse(prog)
	runPass(r, prog, u, &passSpec{mode: "discovery", target: -1})
	var names []string
	for _, a := range u.Addrs {
		names = append(names, nm(a))
	}
	r.Logf("universe (%d): %s", len(u.Addrs), strings.Join(names, " "))
	r.Count("universe.addresses", int64(len(u.Addrs)))

	// pass 1: reference run, oracle on, trace recorded
	ref := runPass(r, prog, u, &passSpec{mode: "reference", target: -1})
	if ref.missed {
		panic("evmworld: the reference pass left the universe its own discovery pass found: " + ref.missWhat)
	}
	flush(r, ref.o)
	r.Logf("reference: %d steps, %d frames, outcomes %v, leftover %v, %d failed frames, trace %016x",
		len(ref.o.steps), len(ref.o.frames), ref.txOutcome, ref.leftover, ref.o.failedFrames, ref.o.hash)
	r.FP("ref", strings.Join(ref.o.fp, ","))
	r.Count("passes.reference", 1)
	r.Count("steps.reference", int64(len(ref.o.steps)))

	// fault placement
	pl := &placer{steps: ref.o.steps, frames: ref.o.frames}
	var specs []passSpec
	seen := map[string]bool{}
	add := func(s passSpec, ok bool) {
		if !ok {
			return
		}
		key := fmt.Sprintf("%s/%d/%d", s.mode, s.tx, s.topGas)
		if s.site != nil {
			key = fmt.Sprintf("%s/%s/%d/%d", s.mode, s.site.root.Name, s.site.off, s.newGas)
		}
		if seen[key] {
			return
		}
		seen[key] = true
		specs = append(specs, s)
	}
	// candidates in trace order: (step, top), (step, inner) for steps below the top frame, and the
	// code deposit of every creation frame. Long traces are thinned before the (recursive)
	// placement is computed: an evenly spaced sample with a seeded offset.
	type cand struct {
		k     int
		inner bool
		store bool
	}
	var cands []cand
	for k := range pl.steps {
		if pl.steps[k].cost == 0 {
			continue
		}
		cands = append(cands, cand{k: k})
		if pl.steps[k].depth > 1 {
			cands = append(cands, cand{k: k, inner: true})
		}
	}
	for fid := range pl.frames {
		if f := &pl.frames[fid]; f.kind.isCreate() && f.succeeded && f.retLen > 0 {
			cands = append(cands, cand{k: fid, store: true}, cand{k: fid, store: true, inner: true})
		}
	}
	r.Count("placements.candidates", int64(len(cands)))
	limit := maxFaultPasses
	if prog.Recursion {
		limit = maxFaultPassesRecursion
	}
	if len(cands) > limit {
		stride := (len(cands)+limit-1)/limit | 1 // odd: top and inner candidates alternate in the list
		start := r.C.Intn("sample-offset", stride)
		var pick []cand
		for i := start; i < len(cands); i += stride {
			pick = append(pick, cands[i])
		}
		cands = pick
		r.Count("programs.sampled", 1)
	} else {
		r.Count("programs.fully-enumerated", 1)
	}
	for _, c := range cands {
		if c.store {
			add(pl.atCodeStore(c.k, c.inner))
		} else {
			add(pl.atStep(c.k, c.inner))
		}
	}
	r.Count("placements.unplaceable", int64(len(cands)-len(specs)))

	refStore := ref.o.faults["code-store-out-of-gas"]
	for i := range specs {
		s := &specs[i]
		res := runPass(r, prog, u, s)
		r.Count("passes.fault", 1)
		if res.missed {
			r.Count("pass.universe-miss", 1)
			r.Logf("pass %s -> abandoned (%s outside the universe)", s, res.missWhat)
			continue
		}
		flush(r, res.o)
		verdict := "no out-of-gas"
		switch {
		case strings.HasPrefix(s.mode, "codestore"):
			if res.o.faults["code-store-out-of-gas"] > refStore {
				r.Fault("oog-at-code-store")
				verdict = "code store starved"
			} else if res.o.oogSeen {
				verdict = "out-of-gas elsewhere"
				r.Count("placement.displaced", 1)
			} else {
				r.Count("placement.not-fired", 1)
			}
		case res.o.hit:
			r.Fault("oog-at-step." + s.mode)
			verdict = "hit"
		case res.o.oogSeen:
			verdict = "out-of-gas elsewhere"
			r.Count("placement.displaced", 1)
		default:
			r.Count("placement.not-fired", 1)
		}
		r.Logf("pass %s -> %s; outcomes %v, %d failed frames, %d steps, trace %016x", s, verdict, res.txOutcome, res.o.failedFrames, res.o.stepIdx, res.o.hash)
		r.FP(s.mode, verdict, strings.Join(res.o.fp, ","))
	}
}

// panicInRepo is kit.PanicInRepo with one difference: the code under test is recognised by a
// "/repo/" path component rather than the "/repo/" prefix, so that a panic inside the scratch
// copy that mutant.sh builds from (/tmp/mutant.*/repo/...) is a violation too, not a harness
// error. A panic whose first frame outside the runtime and kit is harness code stays a
// harness error.
func panicInRepo(cls string) func(v interface{}, stack string) string {
	return func(v interface{}, stack string) string {
		for _, ln := range strings.Split(stack, "\n") {
			ln = strings.TrimSpace(ln)
			if !strings.HasPrefix(ln, "/") {
				continue
			}
			if strings.Contains(ln, "/runtime/") || strings.Contains(ln, "kit/run.go") || strings.Contains(ln, "/src/") || strings.Contains(ln, "/pkg/mod/") {
				continue
			}
			if strings.Contains(ln, "/repo/") && !strings.HasPrefix(ln, "/verif/") {
				return cls
			}
			return ""
		}
		return ""
	}
}
