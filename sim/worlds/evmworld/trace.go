package evmworld

import (
	"bytes"
	"errors"
	"fmt"
	"math/big"
	"strings"
	"time"

	"verifsim/kit"

	"github.com/youchainhq/go-youchain/common"
	"github.com/youchainhq/go-youchain/core/state"
	"github.com/youchainhq/go-youchain/core/vm"
	"github.com/youchainhq/go-youchain/crypto"
)

type frameKind int

const (
	fkTopCall frameKind = iota
	fkTopCreate
	fkCall
	fkCallCode
	fkDelegate
	fkStatic
	fkCreate
	fkCreate2
)

var kindNames = []string{"TX-CALL", "TX-CREATE", "CALL", "CALLCODE", "DELEGATECALL", "STATICCALL", "CREATE", "CREATE2"}

func (k frameKind) String() string { return kindNames[k] }
func (k frameKind) isCreate() bool { return k == fkTopCreate || k == fkCreate || k == fkCreate2 }

// patchSite is the location of a PUSH4 gas operand inside a root code.
type patchSite struct {
	root *Code
	off  int // offset of the 4 operand bytes in root.Bytes
}

// frame is the oracle's record of one call frame, built only from what the vm.Tracer seam
// shows (depth, op, stack, memory, gas, err) and from whole-state observations.
type frame struct {
	id     int // index in oracle.frames once entered, else -1
	parent *frame
	kind   frameKind
	tx     int
	depth  int            // depth at which the steps of this frame run
	ctx    common.Address // the account whose storage and balance the frame works on
	code   *Code          // the generated code the frame runs, if the harness knows it
	static bool           // the frame was entered by STATICCALL or runs beneath one

	entered  bool
	steps    int
	entryGas uint64
	lastGas  uint64 // gas before the most recent step of this frame
	lastCost uint64
	lastOp   vm.OpCode
	lastPC   uint64
	ended    bool
	endErr   error
	retLen   uint64 // size operand of a final RETURN

	// the call op in the parent
	callStep  int
	callPC    uint64
	gasBefore uint64
	cost      uint64
	value     *big.Int
	target    common.Address
	obsBefore *Obs
	creator   int // universe index of the creator for CREATE/CREATE2/creation tx, else -1
	site      *patchSite

	// ledgers that follow the EVM's substate rules: merged into the parent only on success
	burnt   *big.Int                    // value destroyed by SELFDESTRUCT whose beneficiary is the executing account
	touched map[common.Address]struct{} // call targets, created addresses, self-destruct beneficiaries

	innerSuccess, innerFailure, hasSuicide, hasCreate, hasNestedCall, hadEffects bool
}

// stepRec / frameRec are what the reference pass records for fault placement.
type stepRec struct {
	frame int
	tx    int
	depth int
	pc    uint64
	op    vm.OpCode
	gas   uint64
	cost  uint64
	pre   uint64 // hash of all (depth, pc, op) before this step
}

type frameRec struct {
	id, parent    int
	tx            int
	kind          frameKind
	depth         int
	entryGas      uint64
	valueNonZero  bool
	site          *patchSite
	callGasBefore uint64
	callCost      uint64
	callStep      int
	steps         int
	endedOK       bool // last step halted without error
	endGas        uint64
	retLen        uint64
	succeeded     bool
}

var errRev = errors.New("REVERT")

// oracle implements vm.Tracer. It follows frames, takes observations around every call op
// and checks C16's clauses.
type oracle struct {
	r    *kit.Run
	st   *state.StateDB
	u    *Universe
	prog *Program
	desc string // pass description for violation details

	check     bool // apply the oracle (false: discovery pass)
	record    bool // keep steps/frames (reference pass)
	logFrames bool

	guard     *guardDB
	tx        int
	stack     []*frame
	codeOf    map[common.Address]*Code
	rootBytes map[*Code][]byte

	stepIdx int
	hash    uint64
	steps   []stepRec
	frames  []frameRec
	nframes int

	// fault the pass is meant to place
	targetStep int
	targetPre  uint64
	targetPC   uint64
	targetOp   vm.OpCode
	targetDep  int
	hit        bool
	oogSeen    bool

	touchedInFailed map[common.Address]struct{}
	graveyard       map[common.Address]*big.Int // balance destroyed together with a self-destructed account at an earlier Finalise
	faults          map[string]int
	probes          map[string]int
	failedFrames    int
	fp              []string
}

func newOracle(r *kit.Run, prog *Program, u *Universe, desc string) *oracle {
	return &oracle{r: r, u: u, prog: prog, desc: desc, codeOf: map[common.Address]*Code{}, targetStep: -1,
		touchedInFailed: map[common.Address]struct{}{}, graveyard: map[common.Address]*big.Int{}, faults: map[string]int{}, probes: map[string]int{}, hash: 1469598103934665603}
}

func (o *oracle) fault(kind string) { o.faults[kind]++ }
func (o *oracle) probe(name string) { o.probes[name]++ }

func (o *oracle) report(class, format string, a ...interface{}) {
	if o.guard != nil && o.guard.missed {
		return // the observations of this pass are no longer closed (see guardDB)
	}
	o.r.Report(class, "[%s] %s", o.desc, fmt.Sprintf(format, a...))
}

func (o *oracle) CaptureStart(from common.Address, to common.Address, call bool, input []byte, gas uint64, value *big.Int) error {
	return nil
}
func (o *oracle) CaptureEnd(output []byte, gasUsed uint64, t time.Duration, err error) error {
	return nil
}

func (o *oracle) CaptureFault(env *vm.EVM, pc uint64, op vm.OpCode, gas, cost uint64, memory *vm.Memory, stack *vm.Stack, contract *vm.Contract, depth int, err error) error {
	// an error raised while executing an op that CaptureState already showed
	if len(o.stack) != depth {
		panic(fmt.Sprintf("evmworld: CaptureFault at depth %d with %d frames on the oracle's stack", depth, len(o.stack)))
	}
	f := o.stack[depth-1]
	if f.endErr == nil {
		f.ended, f.endErr = true, err
		o.frameFailing(f, err, op)
	}
	return nil
}

func mix64(h, v uint64) uint64 {
	h ^= v
	h *= 1099511628211
	return h
}

func (o *oracle) CaptureState(env *vm.EVM, pc uint64, op vm.OpCode, gas, cost uint64, memory *vm.Memory, stack *vm.Stack, contract *vm.Contract, depth int, err error) error {
	// 1. a child frame that has returned is resolved at the caller's next step
	switch {
	case len(o.stack) == depth+1:
		child := o.stack[depth]
		o.stack = o.stack[:depth]
		o.resolve(child, stack.Back(0).Sign() == 0, gas)
	case len(o.stack) != depth:
		panic(fmt.Sprintf("evmworld: step at depth %d with %d frames on the oracle's stack", depth, len(o.stack)))
	}
	f := o.stack[depth-1]
	if f.ended {
		panic("evmworld: step in a frame that has ended")
	}
	if !f.entered {
		f.entered, f.entryGas = true, gas
		if f.code != nil && !bytes.Equal(contract.Code, o.bytesOf(f.code)) {
			f.code = nil // not the code the harness thought (e.g. a re-created address)
		}
		f.id = o.nframes
		o.nframes++
		if o.record {
			pid := -1
			if f.parent != nil {
				pid = f.parent.id
			}
			o.frames = append(o.frames, frameRec{id: f.id, parent: pid, tx: f.tx, kind: f.kind, depth: depth, entryGas: gas,
				valueNonZero: f.value != nil && f.value.Sign() != 0, site: f.site, callGasBefore: f.gasBefore, callCost: f.cost, callStep: f.callStep})
		}
	} else if o.check && gas > f.lastGas {
		// C16: gas never grows inside a frame; in particular the gas the caller holds after a
		// call is at most what it held before the call op
		o.report("gas-increased", "tx%d %s frame at depth %d in %s: gas %d before step pc=%d %s but %d before the next step pc=%d %s",
			f.tx+1, f.kind, depth, nm(f.ctx), f.lastGas, f.lastPC, f.lastOp, gas, pc, op)
	}
	f.steps++
	f.lastGas, f.lastCost, f.lastOp, f.lastPC = gas, cost, op, pc
	if o.record {
		o.steps = append(o.steps, stepRec{frame: f.id, tx: f.tx, depth: depth, pc: pc, op: op, gas: gas, cost: cost, pre: o.hash})
		o.frames[f.id].steps++
	}
	if o.stepIdx == o.targetStep {
		if o.hash == o.targetPre && pc == o.targetPC && op == o.targetOp && depth == o.targetDep && err == vm.ErrOutOfGas {
			o.hit = true
		}
	}
	o.hash = mix64(mix64(mix64(o.hash, uint64(depth)), pc), uint64(op))
	o.stepIdx++
	o.r.Steps++

	if err != nil {
		// the step failed before executing (invalid op, stack, write protection, out of gas)
		f.ended, f.endErr = true, err
		o.frameFailing(f, err, op)
		return nil
	}
	switch op {
	case vm.CALL, vm.CALLCODE, vm.DELEGATECALL, vm.STATICCALL, vm.CREATE, vm.CREATE2:
		o.beginChild(f, pc, op, gas, cost, memory, stack)
	case vm.STOP:
		f.ended = true
	case vm.RETURN:
		f.ended = true
		if s := stack.Back(1); s.IsUint64() {
			f.retLen = s.Uint64()
		}
	case vm.REVERT:
		f.ended, f.endErr = true, errRev
		o.frameFailing(f, f.endErr, op)
	case vm.SELFDESTRUCT:
		f.ended = true
		f.hasSuicide = true
		ben := common.BigToAddress(stack.Back(0))
		if f.touched == nil {
			f.touched = map[common.Address]struct{}{}
		}
		f.touched[ben] = struct{}{}
		if ben == f.ctx {
			// the balance the account holds now is credited to itself and then zeroed: destroyed
			if f.burnt == nil {
				f.burnt = new(big.Int)
			}
			f.burnt.Add(f.burnt, o.st.GetBalance(f.ctx))
			o.probe("self-destruct to self")
		} else {
			o.probe("self-destruct to another account")
		}
	}
	if f.ended && o.record {
		fr := &o.frames[f.id]
		fr.endedOK = f.endErr == nil
		fr.endGas = gas - cost
		fr.retLen = f.retLen
	}
	return nil
}

// bytesOf returns the bytes of c as installed in this pass (a pass may patch one gas operand).
func (o *oracle) bytesOf(c *Code) []byte {
	rb, ok := o.rootBytes[c.Root]
	if !ok {
		rb = c.Root.Bytes
	}
	return rb[c.Off : c.Off+len(c.Bytes)]
}

// frameFailing counts the failure kind and notes whether the frame had visible effects.
func (o *oracle) frameFailing(f *frame, err error, op vm.OpCode) {
	if !o.check {
		return
	}
	switch {
	case err == vm.ErrOutOfGas:
		o.oogSeen = true
		o.fault("out-of-gas")
	case err == errRev:
		o.fault("revert")
	case strings.HasPrefix(err.Error(), "invalid opcode"):
		o.fault("invalid")
	case strings.Contains(err.Error(), "write protection"):
		o.fault("static-violation")
		o.probe("static violation by " + op.String())
	case strings.HasPrefix(err.Error(), "stack underflow"):
		o.fault("stack-underflow")
	case strings.HasPrefix(err.Error(), "invalid jump"):
		o.fault("bad-jump")
	default:
		o.fault("other-error")
	}
	if f.obsBefore != nil && !f.hadEffects {
		now := observe(o.st, o.u)
		f.hadEffects = !sameAccountsAndLogs(f.obsBefore, now)
	}
}

func bigOrZero(b *big.Int) *big.Int {
	if b == nil {
		return new(big.Int)
	}
	return b
}

// beginChild is called at a CALL-family or CREATE step that is about to execute: it takes
// the "before" observation and pushes the record of the frame the op will (try to) enter.
func (o *oracle) beginChild(f *frame, pc uint64, op vm.OpCode, gas, cost uint64, memory *vm.Memory, stack *vm.Stack) {
	ch := &frame{id: -1, parent: f, tx: f.tx, depth: f.depth + 1, callStep: o.stepIdx - 1, callPC: pc, gasBefore: gas, cost: cost,
		static: f.static, creator: -1, touched: map[common.Address]struct{}{}}
	f.hasNestedCall = true
	switch op {
	case vm.CALL:
		ch.kind, ch.target = fkCall, common.BigToAddress(stack.Back(1))
		ch.value = new(big.Int).Set(stack.Back(2))
		ch.ctx = ch.target
	case vm.CALLCODE:
		ch.kind, ch.target = fkCallCode, common.BigToAddress(stack.Back(1))
		ch.value = new(big.Int).Set(stack.Back(2))
		ch.ctx = f.ctx
	case vm.DELEGATECALL:
		ch.kind, ch.target = fkDelegate, common.BigToAddress(stack.Back(1))
		ch.ctx = f.ctx
	case vm.STATICCALL:
		ch.kind, ch.target = fkStatic, common.BigToAddress(stack.Back(1))
		ch.ctx = ch.target
		ch.static = true
	case vm.CREATE, vm.CREATE2:
		ch.value = new(big.Int).Set(stack.Back(0))
		off, size := stack.Back(1).Uint64(), stack.Back(2).Uint64()
		var init []byte
		if d := memory.Data(); off+size <= uint64(len(d)) {
			init = d[off : off+size]
		}
		if op == vm.CREATE {
			ch.kind = fkCreate
			ch.target = crypto.CreateAddress(f.ctx, o.st.GetNonce(f.ctx))
		} else {
			ch.kind = fkCreate2
			ch.target = crypto.CreateAddress2(f.ctx, common.BigToHash(stack.Back(3)), init)
		}
		ch.ctx = ch.target
		if i, ok := o.u.idx[f.ctx]; ok {
			ch.creator = i
		}
		if f.code != nil {
			if s := f.code.createAt[int(pc)]; s != nil {
				ch.code = s.Init
			}
		}
	}
	if !ch.kind.isCreate() {
		ch.code = o.codeOf[ch.target]
		// the gas operand was pushed by the PUSH4 right before the call op, if at all
		if f.code != nil && pc >= 5 && int(pc) < len(f.code.Bytes) && f.code.Bytes[pc-5] == byte(vm.PUSH4) && !f.code.UnderCreate2 {
			ch.site = &patchSite{root: f.code.Root, off: f.code.Off + int(pc) - 4}
		}
	}
	ch.touched[ch.target] = struct{}{}
	if o.check {
		ch.obsBefore = observe(o.st, o.u)
	}
	o.stack = append(o.stack, ch)
}

// resolve is called when the caller's next step shows the status word of a finished child
// (statusZero), or by the harness for a top-level frame.
func (o *oracle) resolve(ch *frame, statusZero bool, gasNow uint64) {
	failed := statusZero || ch.endErr != nil
	par := ch.parent
	if ch.kind.isCreate() && !failed {
		var rt *Code
		if ch.code != nil && ch.code.End.Kind == endReturnRuntime {
			rt = ch.code.End.Runtime
		}
		o.codeOf[ch.target] = rt
	}
	if o.record && ch.entered {
		o.frames[ch.id].succeeded = !failed
	}
	if o.logFrames {
		o.r.Logf("  tx%d depth %d %s %s->%s value=%s steps=%d : %s", ch.tx+1, ch.depth, ch.kind, nm(parCtx(ch)), nm(ch.target), bigOrZero(ch.value), ch.steps, o.outcome(ch, statusZero))
	}
	if par != nil {
		par.innerFailure = par.innerFailure || failed || ch.innerFailure
		if !failed {
			par.innerSuccess = true
			par.hasSuicide = par.hasSuicide || ch.hasSuicide
			par.hasCreate = par.hasCreate || ch.hasCreate || ch.kind.isCreate()
		}
	}
	if !o.check {
		return
	}
	after := observe(o.st, o.u)
	// -- gas -------------------------------------------------------------------------
	if par != nil && ch.entered {
		// what the caller was charged beyond the gas it handed to the child: the tracer's cost of a
		// CALL-family op includes the forwarded gas, that of CREATE/CREATE2 does not
		charged := ch.gasBefore - ch.cost
		if ch.kind.isCreate() && charged >= ch.entryGas {
			charged -= ch.entryGas
		}
		if gasNow > charged && gasNow-charged > ch.entryGas {
			o.report("gas-returned-exceeds-supplied", "tx%d %s %s->%s at depth %d: the frame started with %d gas but the caller got %d back (caller gas %d before the op, op cost %d, %d after)",
				ch.tx+1, ch.kind, nm(parCtx(ch)), nm(ch.target), ch.depth, ch.entryGas, gasNow-charged, ch.gasBefore, ch.cost, gasNow)
		}
	}
	// -- state -----------------------------------------------------------------------
	o.fp = append(o.fp, fmt.Sprintf("%d%v%v", ch.kind, failed, ch.entered))
	switch {
	case failed:
		o.failedFrames++
		o.countZeroStepFailure(ch, statusZero)
		if d := diffObs(o.u, ch.obsBefore, after, ch.creator); len(d) > 0 {
			o.report("failed-frame-left-trace:"+mainCat(d), "tx%d %s %s->%s at depth %d (call op at pc=%d, value %s, %d steps, %s): state after the failed frame differs from the state before the call op: %s",
				ch.tx+1, ch.kind, nm(parCtx(ch)), nm(ch.target), ch.depth, ch.callPC, bigOrZero(ch.value), ch.steps, o.outcome(ch, statusZero), describe(d))
		}
		for a := range ch.touched {
			o.touchedInFailed[a] = struct{}{}
		}
		if ch.innerSuccess {
			o.probe("failed frame after inner success")
		}
		if ch.hasSuicide {
			o.probe("failed frame containing self-destruct")
		}
		if ch.hasCreate {
			o.probe("failed frame containing create")
		}
		if ch.innerFailure {
			o.probe("nested failure inside failed frame")
		}
		if ch.tx > 0 {
			o.probe("revert in 2nd+ transaction (after Finalise)")
		}
		if ch.hadEffects {
			o.probe("failed frame had visible effects before the abort")
		}
		if ch.static {
			o.probe("failed frame in static context")
		}
	case ch.static:
		norm, n := deadEquivalent(ch.obsBefore, after)
		if n > 0 {
			o.probe("static frame materialised an empty account object (dead before and after, EIP-161)")
		}
		if d := diffObs(o.u, ch.obsBefore, norm, -1); len(d) > 0 {
			if who, amt := o.resurrected(ch.obsBefore, after); amt.Sign() > 0 {
				o.report("destroyed-balance-resurrected", "tx%d %s %s->%s at depth %d (static context, succeeded): %s, destroyed with that balance at the end of an earlier transaction, exists again holding it: %s",
					ch.tx+1, ch.kind, nm(parCtx(ch)), nm(ch.target), ch.depth, who, describe(d))
			} else {
				o.report("static-frame-changed-state:"+mainCat(d), "tx%d %s %s->%s at depth %d (static context, succeeded): %s",
					ch.tx+1, ch.kind, nm(parCtx(ch)), nm(ch.target), ch.depth, describe(d))
			}
		}
		if ch.entered {
			o.probe("static frame succeeded")
		}
	default:
		// success outside a static context: value is conserved except what self-destructs to self destroyed
		want := new(big.Int).Sub(ch.obsBefore.sum(), bigOrZero(ch.burnt))
		if got := after.sum(); got.Cmp(want) != 0 {
			if who, amt := o.resurrected(ch.obsBefore, after); amt.Sign() > 0 && new(big.Int).Sub(got, want).Cmp(amt) == 0 {
				o.report("destroyed-balance-resurrected", "tx%d %s %s->%s at depth %d succeeded: sum of balances %s before, %s after (self-destructed-to-self value %s): the surplus %s is the balance %s held when it was destroyed at the end of an earlier transaction; the account exists again and holds it",
					ch.tx+1, ch.kind, nm(parCtx(ch)), nm(ch.target), ch.depth, ch.obsBefore.sum(), got, bigOrZero(ch.burnt), amt, who)
			} else {
				o.report("value-not-conserved", "tx%d %s %s->%s at depth %d succeeded: sum of balances %s before, %s after, self-destructed-to-self value %s",
					ch.tx+1, ch.kind, nm(parCtx(ch)), nm(ch.target), ch.depth, ch.obsBefore.sum(), got, bigOrZero(ch.burnt))
			}
		}
	}
	if ch.static && ch.hasNestedCall {
		o.probe("static frame with nested call")
	}
	for i := range after.Accts {
		if after.Accts[i].BalNeg {
			o.report("negative-balance", "tx%d after %s %s->%s: balance of %s is %s", ch.tx+1, ch.kind, nm(parCtx(ch)), nm(ch.target), nm(o.u.Addrs[i]), after.Accts[i].balance())
		}
	}
	// substate merge on success
	if !failed && par != nil {
		if ch.burnt != nil {
			if par.burnt == nil {
				par.burnt = new(big.Int)
			}
			par.burnt.Add(par.burnt, ch.burnt)
		}
		if par.touched == nil {
			par.touched = map[common.Address]struct{}{}
		}
		for a := range ch.touched {
			par.touched[a] = struct{}{}
		}
	}
}

func parCtx(ch *frame) common.Address {
	if ch.parent == nil {
		return callerAddr
	}
	return ch.parent.ctx
}

func (o *oracle) outcome(ch *frame, statusZero bool) string {
	switch {
	case ch.endErr != nil:
		return "failed: " + ch.endErr.Error()
	case statusZero && ch.entered:
		return "failed after the frame ended normally"
	case statusZero:
		return "failed without executing a step"
	}
	return "ok"
}

// countZeroStepFailure names, for the fault counters only, the failures no step shows.
func (o *oracle) countZeroStepFailure(ch *frame, statusZero bool) {
	if ch.endErr != nil || !statusZero || ch.parent == nil {
		return
	}
	if ch.entered {
		// the frame ended normally and the op still failed: only a creation can do that
		if ch.retLen > 24576 {
			o.fault("code-too-large")
		} else {
			o.fault("code-store-out-of-gas")
		}
		return
	}
	sender := ch.parent.ctx
	bal := new(big.Int)
	if i, ok := o.u.idx[sender]; ok {
		bal = ch.obsBefore.Accts[i].balance()
	}
	switch {
	case ch.depth > 1025:
		o.fault("depth")
		if ch.value != nil && ch.value.Sign() > 0 {
			o.probe("depth failure of a value-carrying call")
		}
	case ch.value != nil && ch.kind != fkDelegate && ch.value.Cmp(bal) > 0:
		o.fault("insufficient-balance")
	case ch.kind.isCreate():
		if i, ok := o.u.idx[ch.target]; ok {
			a := ch.obsBefore.Accts[i]
			if a.Nonce != 0 || a.CodeSize != 0 {
				o.fault("create-collision")
				return
			}
		}
		o.fault("other-immediate-failure")
	default:
		if isPrecompile(ch.target) {
			o.fault("precompile-out-of-gas")
			return
		}
		o.fault("other-immediate-failure")
	}
}

func isPrecompile(a common.Address) bool {
	for b := byte(1); b <= 8; b++ {
		if a == common.BytesToAddress([]byte{b}) {
			return true
		}
	}
	return false
}

// resurrected names the accounts that did not exist before, exist after, and had a balance
// destroyed with them at an earlier Finalise; it returns the total of those destroyed
// balances. Used only to give that situation (surplus == that total) its own violation class.
func (o *oracle) resurrected(before, after *Obs) (string, *big.Int) {
	total := new(big.Int)
	var who []string
	for i, a := range o.u.Addrs {
		g := o.graveyard[a]
		if g == nil || g.Sign() <= 0 || before.Accts[i].Exist || !after.Accts[i].Exist {
			continue
		}
		total.Add(total, g)
		who = append(who, nm(a))
	}
	return strings.Join(who, ","), total
}
