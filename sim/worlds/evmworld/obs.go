package evmworld

import (
	"fmt"
	"math/big"
	"sort"
	"strings"

	"github.com/youchainhq/go-youchain/common"
	"github.com/youchainhq/go-youchain/core/state"
)

// Universe is the fixed, ordered set of addresses an observation looks at: the fixed accounts
// (caller, base contracts, plain accounts, precompiles 1/2/4) plus every address any StateDB
// mutator was called with during the discovery pass of the same program. A mutator call with
// an address outside the universe during a checked pass silences the oracle for the rest of that pass (guardDB).
type Universe struct {
	Addrs []common.Address
	idx   map[common.Address]int
}

func newUniverse(addrs []common.Address) *Universe {
	u := &Universe{idx: map[common.Address]int{}}
	for _, a := range addrs {
		u.add(a)
	}
	return u
}

func (u *Universe) add(a common.Address) {
	if _, ok := u.idx[a]; ok {
		return
	}
	u.idx[a] = len(u.Addrs)
	u.Addrs = append(u.Addrs, a)
}

func (u *Universe) has(a common.Address) bool { _, ok := u.idx[a]; return ok }

var slotKeys [nKeys]common.Hash

func init() {
	for k := range slotKeys {
		slotKeys[k] = common.BigToHash(big.NewInt(int64(k)))
	}
}

// acctObs is everything the vm.StateDB getters tell about one account.
type acctObs struct {
	Exist, Empty, Suicided, BalNeg bool
	Nonce                          uint64
	Bal                            [32]byte
	CodeHash                       common.Hash
	CodeSize                       int
	Slot                           [nKeys]common.Hash // GetState
	Orig                           [nKeys]common.Hash // GetCommittedState
}

func (a *acctObs) balance() *big.Int {
	b := new(big.Int).SetBytes(a.Bal[:])
	if a.BalNeg {
		b.Neg(b)
	}
	return b
}

// logObs is one log entry in comparable form (topics and data as 64-bit digests).
type logObs struct {
	Index, TxIndex  uint
	Addr            common.Address
	TxHash, BlkHash common.Hash
	NTopics, NData  int
	Topics, Data    uint64
	BlockNumber     uint64
}

func (l logObs) String() string {
	return fmt.Sprintf("#%d tx%d %s topics=%d/%x data=%d/%x h=%x", l.Index, l.TxIndex, nm(l.Addr), l.NTopics, l.Topics, l.NData, l.Data, l.TxHash[28:])
}

func fnv64(h uint64, b []byte) uint64 {
	for _, c := range b {
		h ^= uint64(c)
		h *= 1099511628211
	}
	return h
}

// Obs is a whole-state observation.
type Obs struct {
	Accts  []acctObs
	Logs   []logObs
	Refund uint64
}

// observe reads the whole observable state through the getters of the vm.StateDB interface
// (plus Logs(), which is how the processor collects receipts). It calls no mutator.
func observe(st *state.StateDB, u *Universe) *Obs {
	o := &Obs{Accts: make([]acctObs, len(u.Addrs))}
	for i, ad := range u.Addrs {
		a := &o.Accts[i]
		a.Exist = st.Exist(ad)
		if !a.Exist {
			// every getter answers the zero value (Empty: true) for an account that does not
			// exist — they all go through the same lookup; not asking them keeps observations cheap
			a.Empty = true
			continue
		}
		a.Empty = st.Empty(ad)
		a.Suicided = st.HasSuicided(ad)
		a.Nonce = st.GetNonce(ad)
		b := st.GetBalance(ad)
		if b.Sign() < 0 {
			a.BalNeg = true
		}
		bb := b.Bytes()
		if len(bb) > 32 {
			bb = bb[len(bb)-32:]
		}
		copy(a.Bal[32-len(bb):], bb)
		a.CodeHash = st.GetCodeHash(ad)
		a.CodeSize = st.GetCodeSize(ad)
		for k := 0; k < nKeys; k++ {
			a.Slot[k] = st.GetState(ad, slotKeys[k])
			a.Orig[k] = st.GetCommittedState(ad, slotKeys[k])
		}
	}
	logs := st.Logs() // map order inside: sort by the global log index
	sort.Slice(logs, func(i, j int) bool {
		if logs[i].Index != logs[j].Index {
			return logs[i].Index < logs[j].Index
		}
		return logs[i].TxIndex < logs[j].TxIndex
	})
	if len(logs) > 0 {
		o.Logs = make([]logObs, len(logs))
	}
	for i, l := range logs {
		lo := logObs{Index: l.Index, TxIndex: l.TxIndex, Addr: l.Address, TxHash: l.TxHash, BlkHash: l.BlockHash,
			NTopics: len(l.Topics), NData: len(l.Data), Topics: 14695981039346656037, BlockNumber: l.BlockNumber}
		for _, t := range l.Topics {
			lo.Topics = fnv64(lo.Topics, t[:])
		}
		lo.Data = fnv64(14695981039346656037, l.Data)
		o.Logs[i] = lo
	}
	o.Refund = st.GetRefund()
	return o
}

// sum is the total of all balances of the universe.
func (o *Obs) sum() *big.Int {
	s := new(big.Int)
	for i := range o.Accts {
		s.Add(s, o.Accts[i].balance())
	}
	return s
}

// difference is one differing item of two observations.
type difference struct {
	cat  string // exist, balance, nonce, code, storage, origstorage, suicided, logs, refund
	what string
}

// categories from most to least specific, used to name violation classes
var catOrder = []string{"storage", "balance", "code", "logs", "nonce", "suicided", "exist", "refund", "origstorage"}

// diffObs lists the differences between two observations. If nonceExempt >= 0 the account at
// that index may have its nonce incremented by exactly one (the creator of a failed
// CREATE/CREATE2: the increment precedes the frame and survives its failure); Empty, a
// function of the nonce, is not compared for that account then.
func diffObs(u *Universe, a, b *Obs, nonceExempt int) []difference {
	var d []difference
	for i := range a.Accts {
		x, y := a.Accts[i], b.Accts[i]
		if i == nonceExempt && y.Nonce == x.Nonce+1 {
			y.Nonce = x.Nonce
			y.Empty = x.Empty
		}
		if x == y {
			continue
		}
		n := nm(u.Addrs[i])
		if x.Exist != y.Exist || x.Empty != y.Empty {
			d = append(d, difference{"exist", fmt.Sprintf("%s exist/empty %v/%v -> %v/%v", n, x.Exist, x.Empty, y.Exist, y.Empty)})
		}
		if x.Bal != y.Bal || x.BalNeg != y.BalNeg {
			d = append(d, difference{"balance", fmt.Sprintf("%s balance %s -> %s", n, x.balance(), y.balance())})
		}
		if x.Nonce != y.Nonce {
			d = append(d, difference{"nonce", fmt.Sprintf("%s nonce %d -> %d", n, x.Nonce, y.Nonce)})
		}
		if x.CodeHash != y.CodeHash || x.CodeSize != y.CodeSize {
			d = append(d, difference{"code", fmt.Sprintf("%s code %x(%d bytes) -> %x(%d bytes)", n, x.CodeHash[:4], x.CodeSize, y.CodeHash[:4], y.CodeSize)})
		}
		if x.Suicided != y.Suicided {
			d = append(d, difference{"suicided", fmt.Sprintf("%s suicided %v -> %v", n, x.Suicided, y.Suicided)})
		}
		for k := 0; k < nKeys; k++ {
			if x.Slot[k] != y.Slot[k] {
				d = append(d, difference{"storage", fmt.Sprintf("%s slot%d %x -> %x", n, k, trim(x.Slot[k]), trim(y.Slot[k]))})
			}
			if x.Orig[k] != y.Orig[k] {
				d = append(d, difference{"origstorage", fmt.Sprintf("%s committed slot%d %x -> %x", n, k, trim(x.Orig[k]), trim(y.Orig[k]))})
			}
		}
	}
	if len(a.Logs) != len(b.Logs) {
		d = append(d, difference{"logs", fmt.Sprintf("log count %d -> %d", len(a.Logs), len(b.Logs))})
	} else {
		for i := range a.Logs {
			if a.Logs[i] != b.Logs[i] {
				d = append(d, difference{"logs", fmt.Sprintf("log %q -> %q", a.Logs[i].String(), b.Logs[i].String())})
				break
			}
		}
	}
	if a.Refund != b.Refund {
		d = append(d, difference{"refund", fmt.Sprintf("refund %d -> %d", a.Refund, b.Refund)})
	}
	return d
}

func trim(h common.Hash) []byte { return common.TrimLeftZeroes(h[:]) }

func mainCat(d []difference) string {
	present := map[string]bool{}
	for _, x := range d {
		present[x.cat] = true
	}
	for _, c := range catOrder {
		if present[c] {
			return c
		}
	}
	return "other"
}

func describe(d []difference) string {
	var parts []string
	for i, x := range d {
		if i >= 6 {
			parts = append(parts, fmt.Sprintf("(+%d more)", len(d)-i))
			break
		}
		parts = append(parts, x.what)
	}
	return strings.Join(parts, "; ")
}

// deadEquivalent returns a copy of b in which every account that did not exist in a and is an
// empty account (nonce 0, balance 0, no code, no storage, not self-destructed) in b is reset
// to "does not exist", and the number of such accounts. EIP-161 makes the two states
// equivalent ("dead") for everything the EVM can see, and lets any frame — static ones
// included — touch an account; so a zero-value call that merely materialises an empty account
// object is not a state change in the sense of the specification.
func deadEquivalent(a, b *Obs) (*Obs, int) {
	n := 0
	var c *Obs
	for i := range a.Accts {
		x, y := a.Accts[i], b.Accts[i]
		if x.Exist || !y.Exist || !y.Empty || y.Suicided || y.Nonce != 0 || y.CodeSize != 0 || y.BalNeg || y.Bal != x.Bal || y.Slot != x.Slot || y.Orig != x.Orig {
			continue
		}
		if c == nil {
			c = &Obs{Accts: append([]acctObs(nil), b.Accts...), Logs: b.Logs, Refund: b.Refund}
		}
		c.Accts[i] = x
		n++
	}
	if c == nil {
		return b, 0
	}
	return c, n
}

// sameAccountsAndLogs ignores the refund counter (used only by a non-vacuity probe).
func sameAccountsAndLogs(a, b *Obs) bool {
	for i := range a.Accts {
		if a.Accts[i] != b.Accts[i] {
			return false
		}
	}
	if len(a.Logs) != len(b.Logs) {
		return false
	}
	for i := range a.Logs {
		if a.Logs[i] != b.Logs[i] {
			return false
		}
	}
	return true
}
