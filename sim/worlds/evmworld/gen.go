package evmworld

import (
	"fmt"
	"math/big"

	"verifsim/kit"

	"github.com/youchainhq/go-youchain/common"
	"github.com/youchainhq/go-youchain/core/vm"
	"github.com/youchainhq/go-youchain/crypto"
)

// ---- fixed addresses -------------------------------------------------------------------

const (
	maxBase = 6
	nKeys   = 4 // storage keys 0..nKeys-1 are the only ones generated code writes
)

var (
	callerAddr = common.HexToAddress("0xca11e40000000000000000000000000000000001")
	baseAddrs  [maxBase]common.Address
	eoaNone0   = common.HexToAddress("0xe000000000000000000000000000000000000001") // never exists initially
	eoaNone1   = common.HexToAddress("0xe000000000000000000000000000000000000002") // never exists initially
	eoaEmpty   = common.HexToAddress("0xee00000000000000000000000000000000000001") // exists and is empty initially
	eoaFunded  = common.HexToAddress("0xf000000000000000000000000000000000000001") // exists with a balance
	// precompiles used as call targets. 0x03 (RIPEMD) is deliberately absent everywhere: its
	// touch is kept across reverts on purpose (journal.dirty, the mainnet consensus exception).
	precompiles = []common.Address{
		common.BytesToAddress([]byte{1}), common.BytesToAddress([]byte{2}), common.BytesToAddress([]byte{4}),
	}
	fixedNames = map[common.Address]string{}
)

func init() {
	for i := range baseAddrs {
		baseAddrs[i] = common.HexToAddress(fmt.Sprintf("0xc0de00000000000000000000000000000000000%d", i+1))
		fixedNames[baseAddrs[i]] = fmt.Sprintf("C%d", i+1)
	}
	fixedNames[callerAddr] = "CALLER"
	fixedNames[eoaNone0] = "N0"
	fixedNames[eoaNone1] = "N1"
	fixedNames[eoaEmpty] = "E0"
	fixedNames[eoaFunded] = "F0"
	for _, p := range precompiles {
		fixedNames[p] = fmt.Sprintf("P%d", p[19])
	}
}

// nm gives a short stable name for an address.
func nm(a common.Address) string {
	if n, ok := fixedNames[a]; ok {
		return n
	}
	return "@" + a.Hex()[2:10]
}

// ---- program ---------------------------------------------------------------------------

// TxPlan is one "transaction": a top-level evm.Call or evm.Create by the caller account.
type TxPlan struct {
	Create bool
	Init   *Code // creation transaction: the init code (a root code)
	To     common.Address
	Value  uint64
	Gas    uint64
	Reopen bool // after this transaction: Commit, reopen the state from the roots (block boundary)
}

// Program is one generated multi-contract program with its initial state and transactions.
type Program struct {
	N         int
	Base      []*Code
	Balance   []uint64
	Storage   [][nKeys]uint64 // initial storage of the base contracts (0 = unset)
	Txs       []TxPlan
	Recursion bool
	Predicted []predicted // created addresses the generator anticipated (targets, listing)

	nextSentinel uint64
}

type predicted struct {
	Addr common.Address
	What string
}

func (p *Program) sentinel() uint64 {
	p.nextSentinel++
	return 0x5e000000 + p.nextSentinel
}

type gen struct {
	c *kit.Chooser
	p *Program
	// per base contract
	view       []bool
	createFree []bool // no CREATE reachable through DELEGATECALL/CALLCODE chains starting at this code
	creates    [][]Stmt
	created    []common.Address // predicted created addresses usable as targets
}

func generate(c *kit.Chooser) *Program {
	g := &gen{c: c, p: &Program{}}
	if c.Chance("recursion-program", 1, 14) {
		g.recursionProgram()
		return g.p
	}
	p := g.p
	p.N = c.Range("contracts", 2, maxBase)
	n := p.N
	g.view = make([]bool, n)
	g.createFree = make([]bool, n)
	g.creates = make([][]Stmt, n)
	p.Base = make([]*Code, n)
	p.Balance = make([]uint64, n)
	p.Storage = make([][nKeys]uint64, n)
	for i := 0; i < n; i++ {
		p.Balance[i] = []uint64{1000, 0, 5000, 37}[c.Weighted("balance", []int{5, 2, 2, 1})]
		for k := 0; k < nKeys; k++ {
			if c.Chance("prestore", 1, 3) {
				p.Storage[i][k] = 0x0419000000 + uint64(i)*16 + uint64(k)
			}
		}
		g.view[i] = i > 0 && c.Chance("view-contract", 1, 4)
	}
	// phase A: create statements (their init codes reference only fixed addresses)
	for i := 0; i < n; i++ {
		if g.view[i] {
			continue
		}
		nc := c.Weighted("creates", []int{5, 4, 2})
		for k := 0; k < nc; k++ {
			g.creates[i] = append(g.creates[i], g.createStmt(i, fmt.Sprintf("C%d.init%d", i+1, k+1)))
		}
	}
	// phase B: predicted created addresses
	for i := 0; i < n; i++ {
		nonce := uint64(1)
		for k := range g.creates[i] {
			s := &g.creates[i][k]
			if s.Create2 {
				a := crypto.CreateAddress2(baseAddrs[i], common.BigToHash(new(big.Int).SetUint64(s.Salt)), s.Init.Bytes)
				g.addPredicted(a, fmt.Sprintf("CREATE2 by C%d of %s salt %#x", i+1, s.Init.Name, s.Salt))
			} else {
				a := crypto.CreateAddress(baseAddrs[i], nonce)
				g.addPredicted(a, fmt.Sprintf("CREATE by C%d at nonce %d", i+1, nonce))
			}
			nonce++
		}
	}
	// transactions (planned before the bodies so that creation transactions add predictions)
	nTx := c.Range("txs", 1, 4)
	callerNonce := uint64(0)
	for t := 0; t < nTx; t++ {
		tx := TxPlan{Gas: []uint64{3000000, 800000, 12000000}[c.Weighted("txgas", []int{4, 2, 1})]}
		if c.Chance("creation-tx", 1, 6) {
			tx.Create = true
			tx.Init = g.initCode(-1, fmt.Sprintf("tx%d.init", t+1))
			finish(tx.Init, -1)
			g.addPredicted(crypto.CreateAddress(callerAddr, callerNonce), fmt.Sprintf("creation tx %d", t+1))
		}
		tx.Value = []uint64{0, 7, 300}[c.Weighted("txvalue", []int{3, 3, 1})]
		tx.Reopen = c.Chance("reopen", 1, 6)
		p.Txs = append(p.Txs, tx)
		callerNonce++
	}
	// phase C: bodies, highest index first so that callee properties are known
	for i := n - 1; i >= 0; i-- {
		p.Base[i] = g.baseBody(i)
	}
	for i := 0; i < n; i++ {
		finish(p.Base[i], i)
	}
	// transaction targets
	for t := range p.Txs {
		if p.Txs[t].Create {
			continue
		}
		var dying []int
		for j, b := range p.Base {
			if b.End.Kind == endSelfdestruct {
				dying = append(dying, j)
			}
		}
		wDying := 0
		if len(dying) > 0 && t > 0 {
			wDying = 6
		}
		switch c.Weighted("txto", []int{5, 4, 2, 1, wDying}) {
		case 4:
			p.Txs[t].To = baseAddrs[dying[c.Intn("txto-dying", len(dying))]]
		case 0:
			p.Txs[t].To = baseAddrs[0]
		case 1:
			p.Txs[t].To = baseAddrs[c.Intn("txto-base", n)]
		case 2:
			if len(g.created) > 0 {
				p.Txs[t].To = g.created[c.Intn("txto-created", len(g.created))]
			} else {
				p.Txs[t].To = baseAddrs[0]
			}
		case 3:
			p.Txs[t].To = []common.Address{eoaNone0, eoaEmpty, eoaFunded, precompiles[2]}[c.Intn("txto-eoa", 4)]
		}
	}
	return p
}

func (g *gen) addPredicted(a common.Address, what string) {
	g.p.Predicted = append(g.p.Predicted, predicted{a, what})
	g.created = append(g.created, a)
}

// createStmt generates a CREATE/CREATE2 statement of base contract i.
func (g *gen) createStmt(i int, name string) Stmt {
	c := g.c
	s := Stmt{Kind: stCreate}
	s.Create2 = c.Chance("create2", 1, 2)
	if s.Create2 {
		s.Salt = uint64(1 + c.Intn("salt", 2))
	}
	s.Value = []uint64{0, 5, 60000}[c.Weighted("endowment", []int{3, 3, 1})]
	s.Init = g.initCode(i, name)
	assemble(s.Init) // self-contained: all offsets inside init code are relative to its own start
	return s
}

// initCode generates init code. It may call base contracts with an index above `owner`
// (the base contract whose code embeds it; -1 for a creation transaction) so that the call
// graph stays acyclic, and never creates.
func (g *gen) initCode(owner int, name string) *Code {
	c := g.c
	code := &Code{Name: name, Kind: kindInit}
	ns := c.Range("init-stmts", 0, 3)
	for k := 0; k < ns; k++ {
		switch c.Weighted("init-stmt", []int{5, 2, 3, 1}) {
		case 0:
			code.Stmts = append(code.Stmts, g.sstore())
		case 1:
			code.Stmts = append(code.Stmts, g.logStmt())
		case 2:
			code.Stmts = append(code.Stmts, g.callStmt(owner, false, true))
		case 3:
			code.Stmts = append(code.Stmts, g.readStmt())
		}
	}
	switch c.Weighted("init-end", []int{6, 2, 2, 1, 1, 1, 1}) {
	case 0:
		code.End = Ending{Kind: endReturnRuntime, Runtime: g.runtimeCode(name + ".rt")}
	case 1:
		code.End = Ending{Kind: endStop}
	case 2:
		code.End = Ending{Kind: endRevert, Len: c.Intn("revlen", 2) * 32}
	case 3:
		code.End = Ending{Kind: endInvalid}
	case 4:
		code.End = Ending{Kind: endReturnBig}
	case 5:
		code.End = g.selfdestruct()
	case 6:
		code.End = Ending{Kind: endReturn, Len: 1 + c.Intn("retlen", 40)} // garbage runtime code (zeros = STOPs)
	}
	return code
}

// runtimeCode generates code deployed by init code. It makes no calls to contracts (only to
// plain accounts and precompiles), so anybody may call a created address without a cycle.
func (g *gen) runtimeCode(name string) *Code {
	c := g.c
	code := &Code{Name: name, Kind: kindRuntime}
	ns := c.Range("rt-stmts", 0, 3)
	for k := 0; k < ns; k++ {
		switch c.Weighted("rt-stmt", []int{5, 2, 2, 1}) {
		case 0:
			code.Stmts = append(code.Stmts, g.sstore())
		case 1:
			code.Stmts = append(code.Stmts, g.logStmt())
		case 2:
			code.Stmts = append(code.Stmts, g.callStmt(maxBase, false, true)) // owner beyond every base: no contract targets
		case 3:
			code.Stmts = append(code.Stmts, g.readStmt())
		}
	}
	switch c.Weighted("rt-end", []int{5, 2, 2, 2}) {
	case 0:
		code.End = Ending{Kind: endStop}
	case 1:
		code.End = Ending{Kind: endReturn, Len: 32}
	case 2:
		code.End = Ending{Kind: endRevert}
	case 3:
		code.End = g.selfdestruct()
	}
	return code
}

func (g *gen) sstore() Stmt {
	s := Stmt{Kind: stSstore, Key: g.c.Intn("slot", nKeys)}
	if !g.c.Chance("sstore-zero", 1, 5) {
		s.Val = g.p.sentinel()
	}
	return s
}

func (g *gen) logStmt() Stmt {
	return Stmt{Kind: stLog, NTopics: g.c.Intn("topics", 3), Topic: g.p.sentinel(), DataLen: g.c.Intn("logdata", 2) * 32}
}

func (g *gen) readStmt() Stmt {
	s := Stmt{Kind: stRead, Op: []vm.OpCode{vm.BALANCE, vm.EXTCODESIZE, vm.EXTCODEHASH}[g.c.Intn("read-op", 3)]}
	s.Target = g.anyAddress()
	return s
}

func (g *gen) anyAddress() common.Address {
	c := g.c
	switch c.Weighted("addr-class", []int{4, 3, 2}) {
	case 0:
		if g.p.N > 0 {
			return baseAddrs[c.Intn("addr-base", g.p.N)]
		}
	case 1:
		return []common.Address{eoaFunded, eoaNone0, eoaNone1, eoaEmpty, callerAddr}[c.Intn("addr-eoa", 5)]
	case 2:
		if len(g.created) > 0 {
			return g.created[c.Intn("addr-created", len(g.created))]
		}
	}
	return eoaFunded
}

func (g *gen) selfdestruct() Ending {
	e := Ending{Kind: endSelfdestruct}
	// base contracts generated so far (higher indexes) that self-destruct themselves: naming one
	// of them sends value to an account that may already be marked for destruction
	var dying []int
	for j, b := range g.p.Base {
		if b != nil && b.End.Kind == endSelfdestruct {
			dying = append(dying, j)
		}
	}
	wDying := 0
	if len(dying) > 0 {
		wDying = 4
	}
	switch g.c.Weighted("beneficiary", []int{3, 2, 3, wDying}) {
	case 0:
		e.Beneficiary = g.anyAddress()
	case 1:
		e.ToSelf = true
	case 2:
		e.Beneficiary = baseAddrs[g.c.Intn("beneficiary-base", g.p.N)]
	case 3:
		e.Beneficiary = baseAddrs[dying[g.c.Intn("beneficiary-dying", len(dying))]]
	}
	return e
}

// callStmt generates a call made by code owned by base contract `owner` (contracts with a
// higher index are allowed as targets). view: no value. embedded: the code is init or runtime
// code, whose DELEGATECALL/CALLCODE targets must be create-free (a CREATE executed in the
// context of a created account would put addresses outside what the generator can predict).
func (g *gen) callStmt(owner int, view, embedded bool) Stmt {
	c := g.c
	s := Stmt{Kind: stCall}
	s.Op = []vm.OpCode{vm.CALL, vm.STATICCALL, vm.DELEGATECALL, vm.CALLCODE}[c.Weighted("call-op", []int{6, 3, 2, 2})]
	// target
	var contracts []int
	for j := owner + 1; j < g.p.N; j++ {
		if j < 0 {
			continue
		}
		if embedded && (s.Op == vm.DELEGATECALL || s.Op == vm.CALLCODE) && !g.createFree[j] {
			continue
		}
		contracts = append(contracts, j)
	}
	wContract := 8
	if len(contracts) == 0 {
		wContract = 0
	}
	wCreated := 2
	if len(g.created) == 0 {
		wCreated = 0
	}
	switch c.Weighted("call-target", []int{wContract, 2, 1, wCreated}) {
	case 0:
		// STATICCALL prefers view contracts (a static frame that survives needs a body without writes)
		pick := contracts[c.Intn("call-contract", len(contracts))]
		if s.Op == vm.STATICCALL {
			for _, j := range contracts {
				if g.view[j] && c.Chance("static-to-view", 2, 3) {
					pick = j
					break
				}
			}
		}
		s.Target = baseAddrs[pick]
	case 1:
		s.Target = []common.Address{eoaFunded, eoaNone0, eoaEmpty, eoaNone1, callerAddr}[c.Intn("call-eoa", 5)]
	case 2:
		s.Target = precompiles[c.Intn("call-precompile", len(precompiles))]
	case 3:
		s.Target = g.created[c.Intn("call-created", len(g.created))]
	}
	if (s.Op == vm.CALL || s.Op == vm.CALLCODE) && !view {
		s.Value = []uint64{0, uint64(1 + c.Intn("value", 300)), 60000}[c.Weighted("call-value", []int{4, 4, 1})]
	}
	switch c.Weighted("call-gas", []int{6, 2, 2, 1}) {
	case 0:
		s.GasMode, s.Gas = gasFixed, uint32(100000+c.Intn("gas-ample", 8)*100000)
	case 1:
		s.GasMode = gasAll
	case 2:
		s.GasMode, s.Gas = gasFixed, uint32(100+c.Intn("gas-small", 300)*100)
	case 3:
		s.GasMode, s.Gas = gasFixed, 0
	}
	s.ArgLen = c.Intn("arglen", 2) * 32
	s.RetLen = c.Intn("retlen", 2) * 32
	return s
}

// baseBody generates the body of base contract i and places its create statements in it.
func (g *gen) baseBody(i int) *Code {
	c := g.c
	code := &Code{Name: fmt.Sprintf("C%d", i+1), Kind: kindBase}
	view := g.view[i]
	ns := c.Range("stmts", 1, 7)
	pending := append([]Stmt(nil), g.creates[i]...)
	for k := 0; k < ns; k++ {
		if view {
			if c.Chance("view-read", 1, 3) {
				code.Stmts = append(code.Stmts, g.readStmt())
			} else {
				code.Stmts = append(code.Stmts, g.callStmt(i, true, false))
			}
			continue
		}
		wCreate := 0
		if len(pending) > 0 {
			wCreate = 4
		}
		switch c.Weighted("stmt", []int{5, 6, 2, wCreate, 1}) {
		case 0:
			code.Stmts = append(code.Stmts, g.sstore())
		case 1:
			code.Stmts = append(code.Stmts, g.callStmt(i, false, false))
		case 2:
			code.Stmts = append(code.Stmts, g.logStmt())
		case 3:
			code.Stmts = append(code.Stmts, pending[0])
			pending = pending[1:]
		case 4:
			code.Stmts = append(code.Stmts, g.readStmt())
		}
	}
	code.Stmts = append(code.Stmts, pending...)
	if view {
		code.End = []Ending{{Kind: endStop}, {Kind: endReturn, Len: 32}, {Kind: endRevert}}[c.Weighted("view-end", []int{4, 2, 1})]
	} else {
		wSuicide := 3
		for j := i + 1; j < g.p.N; j++ {
			if g.p.Base[j] != nil && g.p.Base[j].End.Kind == endSelfdestruct {
				wSuicide = 7 // self-destructs come in groups: value sent to the dying is the rare, interesting case
			}
		}
		switch c.Weighted("end", []int{8, 3, 4, 1, 1, 1, wSuicide}) {
		case 0:
			code.End = Ending{Kind: endStop}
		case 1:
			code.End = Ending{Kind: endReturn, Len: c.Intn("retlen", 2) * 32}
		case 2:
			code.End = Ending{Kind: endRevert, Len: c.Intn("revlen", 2) * 32}
		case 3:
			code.End = Ending{Kind: endInvalid}
		case 4:
			code.End = Ending{Kind: endUnderflow}
		case 5:
			code.End = Ending{Kind: endBadJump}
		case 6:
			code.End = g.selfdestruct()
		}
	}
	// value for the dead: when the beneficiary is a higher contract that destroys itself, usually
	// call it first, so that it is already marked for destruction when it receives the balance
	if code.End.Kind == endSelfdestruct && !code.End.ToSelf {
		for j := i + 1; j < g.p.N; j++ {
			if code.End.Beneficiary == baseAddrs[j] && g.p.Base[j] != nil && g.p.Base[j].End.Kind == endSelfdestruct && c.Chance("call-beneficiary-first", 2, 3) {
				code.Stmts = append(code.Stmts, Stmt{Kind: stCall, Op: vm.CALL, Target: baseAddrs[j], GasMode: gasFixed, Gas: 300000})
			}
		}
	}
	// create-free: no create here and none reachable by borrowing code in our context
	free := len(g.creates[i]) == 0
	for _, s := range code.Stmts {
		if s.Kind == stCall && (s.Op == vm.DELEGATECALL || s.Op == vm.CALLCODE) {
			for j := i + 1; j < g.p.N; j++ {
				if s.Target == baseAddrs[j] && !g.createFree[j] {
					free = false
				}
			}
			// (a created address as target is fine: runtime code never creates)
		}
	}
	g.createFree[i] = free
	return code
}

// recursionProgram builds two contracts that call each other with all gas until the call
// depth limit refuses the next frame: the only way to reach the depth failure.
func (g *gen) recursionProgram() {
	c := g.c
	p := g.p
	p.Recursion = true
	p.N = 2
	p.Base = make([]*Code, 2)
	p.Balance = []uint64{1000, 1000}
	p.Storage = make([][nKeys]uint64, 2)
	value := uint64(c.Weighted("rec-value", []int{1, 3})) // 0 or 1... index 1 -> value 1
	for i := 0; i < 2; i++ {
		code := &Code{Name: fmt.Sprintf("C%d", i+1), Kind: kindBase}
		if c.Chance("rec-pre-sstore", 1, 3) {
			code.Stmts = append(code.Stmts, g.sstore())
		}
		op := vm.CALL
		if c.Chance("rec-callcode", 1, 8) {
			op = vm.CALLCODE
		}
		code.Stmts = append(code.Stmts, Stmt{Kind: stCall, Op: op, Target: baseAddrs[1-i], Value: value, GasMode: gasAll})
		if c.Chance("rec-post-sstore", 1, 2) {
			code.Stmts = append(code.Stmts, g.sstore())
		}
		if c.Chance("rec-post-log", 1, 4) {
			code.Stmts = append(code.Stmts, g.logStmt())
		}
		code.End = []Ending{{Kind: endStop}, {Kind: endRevert}, {Kind: endReturn, Len: 32}}[c.Weighted("rec-end", []int{4, 2, 1})]
		p.Base[i] = code
		finish(code, i)
	}
	nTx := 1 + c.Intn("rec-txs", 2)
	for t := 0; t < nTx; t++ {
		p.Txs = append(p.Txs, TxPlan{To: baseAddrs[0], Gas: 400000000000000, Value: uint64(c.Intn("rec-txvalue", 2))})
	}
}

// Describe returns the program as an assembly listing with its initial state and plan.
func (p *Program) Describe() []string {
	var out []string
	out = append(out, fmt.Sprintf("program: %d base contracts, %d transactions, recursion=%v", p.N, len(p.Txs), p.Recursion))
	for i, b := range p.Base {
		st := ""
		for k, v := range p.Storage[i] {
			if v != 0 {
				st += fmt.Sprintf(" slot%d=%#x", k, v)
			}
		}
		out = append(out, fmt.Sprintf("account %s balance=%d nonce=1%s", b.Name, p.Balance[i], st))
		out = append(out, b.Listing()...)
	}
	for _, pr := range p.Predicted {
		out = append(out, fmt.Sprintf("predicted %s = %s", nm(pr.Addr), pr.What))
	}
	for t, tx := range p.Txs {
		if tx.Create {
			out = append(out, fmt.Sprintf("tx%d: CREATE by CALLER value=%d gas=%d reopen-after=%v", t+1, tx.Value, tx.Gas, tx.Reopen))
			out = append(out, tx.Init.Listing()...)
		} else {
			out = append(out, fmt.Sprintf("tx%d: CALL %s value=%d gas=%d reopen-after=%v", t+1, nm(tx.To), tx.Value, tx.Gas, tx.Reopen))
		}
	}
	return out
}
