package evmworld

import (
	"fmt"
	"testing"

	"verifsim/kit"

	"github.com/youchainhq/go-youchain/core/vm"
)

func TestMinimalResurrection(t *testing.T) {
	p := &Program{N: 2, Balance: []uint64{1000, 1000}, Storage: make([][nKeys]uint64, 2)}
	c1 := &Code{Name: "C1", Kind: kindBase,
		Stmts: []Stmt{{Kind: stCall, Op: vm.CALL, Target: baseAddrs[1], GasMode: gasFixed, Gas: 100000}},
		End:   Ending{Kind: endSelfdestruct, Beneficiary: baseAddrs[1]}}
	c2 := &Code{Name: "C2", Kind: kindBase, End: Ending{Kind: endSelfdestruct, ToSelf: true}}
	p.Base = []*Code{c1, c2}
	finish(c1, 0)
	finish(c2, 1)
	p.Txs = []TxPlan{{To: baseAddrs[0], Gas: 3000000}, {To: baseAddrs[1], Gas: 3000000}}
	r := kit.NewRun("C16", "quick", 0, 0, kit.NewReplay(nil), true)
	for _, l := range p.Describe() {
		r.Logf("%s", l)
	}
	u := fixedUniverse(p)
	runPass(r, p, u, &passSpec{mode: "discovery", target: -1})
	ref := runPass(r, p, u, &passSpec{mode: "reference", target: -1})
	for _, l := range r.Lines() {
		fmt.Println(l)
	}
	fmt.Println(ref.txOutcome, r.Violations)
}
