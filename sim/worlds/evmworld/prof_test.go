package evmworld

import (
	"fmt"
	"testing"
	"time"

	"verifsim/kit"
)

func TestProf(t *testing.T) {
	ck := kit.LookupPart("C16", "evm")
	for i := uint64(0); i < 40; i++ {
		st := time.Now()
		r, herr := kit.OneRun(ck, "quick", 1, i, false)
		if herr != "" {
			t.Fatal(herr)
		}
		fmt.Printf("run %d: %v passes=%d steps=%d viol=%d rec=%d\n", i, time.Since(st), r.Stats["passes.fault"], r.Steps, len(r.Violations), r.Stats["probe.recursion program"])
	}
}
