package evmworld

// Fault placement: from the reference trace compute the top-level gas, or the gas operand of
// one inner call, that makes out-of-gas strike at a chosen recorded step. This is the
// injector, not the oracle: it may and does use knowledge of the gas rules (63/64 forwarding,
// the 2300 stipend, 200 gas per byte of deployed code). Whether the fault landed where it was
// aimed is verified afterwards from the trace of the faulted pass, not assumed.

const (
	stipend       = 2300
	codeByteGas   = 200
	maxGasOperand = 1<<32 - 1
)

// inv6364 returns the smallest x with x - x/64 >= y.
func inv6364(y uint64) uint64 {
	x := y + y/63
	for x > 0 && (x-1)-(x-1)/64 >= y {
		x--
	}
	for x-x/64 < y {
		x++
	}
	return x
}

type placer struct {
	steps  []stepRec
	frames []frameRec
}

// require computes how to give frame fid exactly `allot` gas at entry (less than it had in
// the reference pass). inner: patch the gas operand of the nearest CALL-family frame on the
// way up; otherwise lower the gas of the transaction.
func (p *placer) require(fid int, allot uint64, inner bool) (spec passSpec, ok bool) {
	f := &p.frames[fid]
	if allot >= f.entryGas {
		return spec, false
	}
	if f.parent < 0 {
		if inner {
			return spec, false // no inner call on the way: same as the top-level placement
		}
		return passSpec{mode: "top", tx: f.tx, topGas: allot}, true
	}
	par := &p.frames[f.parent]
	var delta uint64
	switch f.kind {
	case fkCall, fkCallCode, fkDelegate, fkStatic:
		var st uint64
		if f.valueNonZero && (f.kind == fkCall || f.kind == fkCallCode) {
			st = stipend
		}
		if allot < st || f.entryGas < st {
			return spec, false
		}
		want := allot - st // gas the call op must forward
		if inner && f.site != nil {
			if want == 0 || want > maxGasOperand {
				return spec, false // a zero operand does not mean zero gas in this code base
			}
			return passSpec{mode: "inner", tx: f.tx, site: f.site, newGas: uint32(want)}, true
		}
		passed := f.entryGas - st
		if f.callCost < passed || f.callGasBefore < f.callCost-passed {
			return spec, false
		}
		avail := f.callGasBefore - (f.callCost - passed)
		need := inv6364(want)
		if need >= avail {
			return spec, false
		}
		delta = avail - need
	case fkCreate, fkCreate2:
		if f.callGasBefore < f.callCost {
			return spec, false
		}
		avail := f.callGasBefore - f.callCost
		var need uint64
		switch f.entryGas {
		case avail:
			need = allot
		case avail - avail/64:
			need = inv6364(allot)
		default:
			return spec, false
		}
		if need >= avail {
			return spec, false
		}
		delta = avail - need
	default:
		return spec, false
	}
	if delta >= par.entryGas {
		return spec, false
	}
	return p.require(f.parent, par.entryGas-delta, inner)
}

// atStep: out of gas at recorded step k.
func (p *placer) atStep(k int, inner bool) (passSpec, bool) {
	s := p.steps[k]
	if s.cost == 0 {
		return passSpec{}, false
	}
	f := &p.frames[s.frame]
	allot := (f.entryGas - s.gas) + s.cost - 1
	spec, ok := p.require(s.frame, allot, inner)
	if ok {
		spec.target, spec.ts, spec.tx = k, s, s.tx
	}
	return spec, ok
}

// atCodeStore: the init code of creation frame fid runs to its end but the gas left does not
// pay for storing the returned code.
func (p *placer) atCodeStore(fid int, inner bool) (passSpec, bool) {
	f := &p.frames[fid]
	if !f.kind.isCreate() || !f.endedOK || !f.succeeded || f.retLen == 0 {
		return passSpec{}, false
	}
	used := f.entryGas - f.endGas
	allot := used + f.retLen*codeByteGas - 1
	spec, ok := p.require(fid, allot, inner)
	if ok {
		spec.target = -1
		spec.tx = f.tx
		if spec.mode == "top" {
			spec.mode = "codestore"
		} else {
			spec.mode = "codestore-inner"
		}
	}
	return spec, ok
}
