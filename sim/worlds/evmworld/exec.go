package evmworld

import (
	"fmt"
	"math/big"

	"verifsim/kit"

	"github.com/youchainhq/go-youchain/common"
	"github.com/youchainhq/go-youchain/core"
	"github.com/youchainhq/go-youchain/core/state"
	"github.com/youchainhq/go-youchain/core/types"
	"github.com/youchainhq/go-youchain/core/vm"
	"github.com/youchainhq/go-youchain/crypto"
	"github.com/youchainhq/go-youchain/logging"
	"github.com/youchainhq/go-youchain/params"
	"github.com/youchainhq/go-youchain/youdb"
)

func init() {
	logging.Root().SetHandler(logging.DiscardHandler())
}

// guardDB is the vm.StateDB handed to the EVM: the real *state.StateDB with every mutator of
// the account state passing through a membership test (or, in the discovery pass, extending
// the universe). It changes no behaviour. A mutator call with an address (or storage key) the
// observations of this pass do not cover marks the pass as "missed": from then on the oracle
// is silent for the rest of the pass (its observations are no longer closed) and the pass is
// counted as abandoned. That is a limit of the generator's foresight, not a property violation.
type guardDB struct {
	*state.StateDB
	u        *Universe
	discover bool
	missed   bool
	missWhat string
}

func (g *guardDB) see(a common.Address) {
	if g.discover {
		g.u.add(a)
	} else if !g.u.has(a) && !g.missed {
		g.missed, g.missWhat = true, "address "+a.Hex()
	}
}

func (g *guardDB) CreateAccount(a common.Address)          { g.see(a); g.StateDB.CreateAccount(a) }
func (g *guardDB) SubBalance(a common.Address, v *big.Int) { g.see(a); g.StateDB.SubBalance(a, v) }
func (g *guardDB) AddBalance(a common.Address, v *big.Int) { g.see(a); g.StateDB.AddBalance(a, v) }
func (g *guardDB) SetNonce(a common.Address, n uint64)     { g.see(a); g.StateDB.SetNonce(a, n) }
func (g *guardDB) SetCode(a common.Address, c []byte)      { g.see(a); g.StateDB.SetCode(a, c) }
func (g *guardDB) Suicide(a common.Address) bool           { g.see(a); return g.StateDB.Suicide(a) }
func (g *guardDB) SetState(a common.Address, k, v common.Hash) {
	g.see(a)
	if new(big.Int).SetBytes(k[:]).Cmp(big.NewInt(nKeys)) >= 0 && !g.missed {
		g.missed, g.missWhat = true, "storage key "+k.Hex()
	}
	g.StateDB.SetState(a, k, v)
}

var _ vm.StateDB = (*guardDB)(nil)

// passSpec says how one pass deviates from the program's plan.
type passSpec struct {
	mode   string // discovery | reference | top | inner | codestore
	tx     int    // transaction whose gas is replaced (top) / that contains the target
	topGas uint64 // top: gas of transaction tx
	site   *patchSite
	newGas uint32
	target int // index of the target step in the reference trace, -1 if none
	ts     stepRec
}

func (s *passSpec) String() string {
	switch s.mode {
	case "top", "codestore":
		return fmt.Sprintf("%s: tx%d gas=%d aiming at step %d (depth %d pc=%d %s)", s.mode, s.tx+1, s.topGas, s.target, s.ts.depth, s.ts.pc, s.ts.op)
	case "inner", "codestore-inner":
		return fmt.Sprintf("%s: gas operand at %s+%#x set to %d aiming at step %d (tx%d depth %d pc=%d %s)", s.mode, s.site.root.Name, s.site.off, s.newGas, s.target, s.tx+1, s.ts.depth, s.ts.pc, s.ts.op)
	}
	return s.mode
}

type passResult struct {
	missed    bool
	missWhat  string
	o         *oracle
	txOutcome []string
	leftover  []uint64
}

var (
	blockHash = common.HexToHash("0xb10c000000000000000000000000000000000000000000000000000000000001")
	coinbase  = common.HexToAddress("0xc01bba5e00000000000000000000000000000001")
)

// buildState installs the program: caller, base contracts (code, balance, nonce 1, storage),
// a funded and an empty plain account; commits and reopens from the roots so that the run
// starts, like a block, from a state loaded from the database.
func buildState(prog *Program, rootBytes map[*Code][]byte) *state.StateDB {
	db := state.NewDatabase(youdb.NewMemDatabase())
	st, err := state.New(common.Hash{}, common.Hash{}, common.Hash{}, db)
	if err != nil {
		panic(err)
	}
	st.AddBalance(callerAddr, new(big.Int).SetUint64(1000000000000000000))
	for i, b := range prog.Base {
		a := baseAddrs[i]
		code := b.Bytes
		if rb, ok := rootBytes[b]; ok {
			code = rb
		}
		st.SetNonce(a, 1)
		st.SetCode(a, code)
		st.AddBalance(a, new(big.Int).SetUint64(prog.Balance[i]))
		for k, v := range prog.Storage[i] {
			if v != 0 {
				st.SetState(a, slotKeys[k], common.BigToHash(new(big.Int).SetUint64(v)))
			}
		}
	}
	st.AddBalance(eoaFunded, big.NewInt(1000))
	st.CreateAccount(eoaEmpty)
	root, vroot, sroot, err := st.Commit(false) // false: keep the empty account, as a genesis alloc would
	if err != nil {
		panic(err)
	}
	st, err = state.New(root, vroot, sroot, db)
	if err != nil {
		panic(err)
	}
	return st
}

func fixedUniverse(prog *Program) *Universe {
	addrs := []common.Address{callerAddr}
	for i := 0; i < prog.N; i++ {
		addrs = append(addrs, baseAddrs[i])
	}
	addrs = append(addrs, eoaFunded, eoaEmpty, eoaNone0, eoaNone1)
	addrs = append(addrs, precompiles...)
	return newUniverse(addrs)
}

// runPass executes the whole program once on a fresh state.
func runPass(r *kit.Run, prog *Program, u *Universe, spec *passSpec) (res *passResult) {
	o := newOracle(r, prog, u, spec.String())
	res = &passResult{o: o}
	o.check = spec.mode != "discovery"
	o.record = spec.mode == "reference"
	o.logFrames = spec.mode == "reference" && !prog.Recursion
	o.rootBytes = map[*Code][]byte{}
	if spec.site != nil {
		rb := append([]byte(nil), spec.site.root.Bytes...)
		rb[spec.site.off] = byte(spec.newGas >> 24)
		rb[spec.site.off+1] = byte(spec.newGas >> 16)
		rb[spec.site.off+2] = byte(spec.newGas >> 8)
		rb[spec.site.off+3] = byte(spec.newGas)
		o.rootBytes[spec.site.root] = rb
	}
	if spec.target >= 0 {
		o.targetStep, o.targetPre, o.targetPC, o.targetOp, o.targetDep = spec.target, spec.ts.pre, spec.ts.pc, spec.ts.op, spec.ts.depth
	}
	for i := 0; i < prog.N; i++ {
		o.codeOf[baseAddrs[i]] = prog.Base[i]
	}
	st := buildState(prog, o.rootBytes)
	o.st = st
	guard := &guardDB{StateDB: st, u: u, discover: spec.mode == "discovery"}
	o.guard = guard
	defer func() { res.missed, res.missWhat = guard.missed, guard.missWhat }()

	cfg := &vm.Config{
		RuntimeConfig: vm.RuntimeConfig{JumpTable: vm.GetJumpTable(params.EvmIstanbul)}, // what core.CombineVMConfig builds for every protocol version
		LocalConfig:   vm.LocalConfig{Debug: true, Tracer: o},
	}
	header := &types.Header{Number: big.NewInt(1), Time: 1000, GasLimit: 1 << 62, ParentHash: common.Hash{1}}

	for t, tx := range prog.Txs {
		o.tx = t
		gas := tx.Gas
		if (spec.mode == "top" || spec.mode == "codestore") && spec.tx == t {
			gas = spec.topGas
		}
		thash := common.BigToHash(big.NewInt(int64(0x7000 + t)))
		st.Prepare(thash, blockHash, t) // core/state_processor.go: statedb.Prepare(tx.Hash(), block.Hash(), i)
		txStart := (*Obs)(nil)
		if o.check {
			txStart = observe(st, u)
		}
		value := new(big.Int).SetUint64(tx.Value)
		nonce := st.GetNonce(callerAddr)
		var to *common.Address
		var data []byte
		if tx.Create {
			data = tx.Init.Bytes
			if rb, ok := o.rootBytes[tx.Init]; ok {
				data = rb
			}
		} else {
			a := tx.To
			to = &a
		}
		msg := types.NewMessage(callerAddr, to, nonce, value, gas, big.NewInt(1), data, true)
		// core/state_transition.go ApplyMessage: NewEVMContext + NewEVM per message
		evm := vm.NewEVM(core.NewEVMContext(msg, header, nil, coinbase, nil), guard, cfg)
		sender := vm.AccountRef(callerAddr)

		top := &frame{id: -1, tx: t, depth: 1, creator: -1, value: value, touched: map[common.Address]struct{}{}}
		var err error
		var left uint64
		if tx.Create {
			// TransitionDb, contractCreation branch
			top.kind = fkTopCreate
			top.target = crypto.CreateAddress(callerAddr, nonce)
			top.ctx = top.target
			top.code = tx.Init
			top.creator = u.idx[callerAddr]
			top.touched[top.target] = struct{}{}
			if o.check {
				top.obsBefore = observe(st, u)
			}
			o.stack = []*frame{top}
			_, _, left, err = evm.Create(sender, data, gas, value)
		} else {
			// TransitionDb, call branch: the sender's nonce is bumped outside the EVM
			guard.SetNonce(callerAddr, nonce+1)
			top.kind = fkTopCall
			top.target, top.ctx = tx.To, tx.To
			top.code = o.codeOf[tx.To]
			top.touched[tx.To] = struct{}{}
			if o.check {
				top.obsBefore = observe(st, u)
			}
			o.stack = []*frame{top}
			_, left, err = evm.Call(sender, tx.To, nil, gas, value)
		}
		if len(o.stack) != 1 {
			panic(fmt.Sprintf("evmworld: %d frames left on the oracle's stack after the transaction", len(o.stack)))
		}
		o.stack = nil
		if err != nil && top.endErr == nil && !top.entered {
			// failures no step shows (depth cannot happen here; insufficient balance is excluded by the plan)
			if o.check {
				o.fault("top-level-immediate-failure")
			}
		}
		if o.check && left > gas {
			o.report("gas-returned-exceeds-supplied", "tx%d: leftOverGas %d > gas supplied %d", t+1, left, gas)
		}
		o.resolve(top, err != nil, left)
		out := "ok"
		if err != nil {
			out = err.Error()
		}
		res.txOutcome = append(res.txOutcome, out)
		res.leftover = append(res.leftover, left)

		// end of transaction: core/state_processor.go ApplyTransaction -> statedb.Finalise(true)
		var before *Obs
		if o.check {
			before = observe(st, u)
		}
		st.Finalise(true)
		if o.check {
			o.afterFinalise(t, txStart, before, top, err == nil)
		}
		if tx.Reopen && t < len(prog.Txs)-1 {
			// block boundary: commit and start the next transaction on a state loaded from the roots
			root, vroot, sroot, cerr := st.Commit(true)
			if cerr != nil {
				panic(cerr)
			}
			ns, nerr := state.New(root, vroot, sroot, st.Database())
			if nerr != nil {
				panic(nerr)
			}
			st = ns
			o.st = ns
			guard.StateDB = ns
			if o.check {
				o.probe("continued on a reopened state")
			}
		}
	}
	return res
}

// afterFinalise checks the transaction-level clauses once the transaction has been finalised.
func (o *oracle) afterFinalise(t int, txStart, before *Obs, top *frame, topOK bool) {
	after := observe(o.st, o.u)
	// value: Finalise removes self-destructed accounts; whatever balance such an account holds at
	// that moment (value it received after its SELFDESTRUCT, in the same transaction) is destroyed
	// with it. Nothing else may change the total.
	burnt := new(big.Int)
	for i := range before.Accts {
		if before.Accts[i].Suicided {
			burnt.Add(burnt, before.Accts[i].balance())
			o.graveyard[o.u.Addrs[i]] = before.Accts[i].balance()
		}
	}
	if burnt.Sign() > 0 {
		o.probe("value burnt with a self-destructed account at Finalise")
	}
	want := new(big.Int).Sub(before.sum(), burnt)
	if got := after.sum(); got.Cmp(want) != 0 {
		o.report("value-not-conserved", "tx%d Finalise: sum of balances %s before, %s after, held by self-destructed accounts %s", t+1, before.sum(), got, burnt)
	}
	// an empty account that existed before the transaction and was touched (as call target,
	// created address or self-destruct beneficiary) only inside frames that failed — or not at
	// all — must still exist: a failed frame's touch is part of what must leave no trace
	touched := map[common.Address]struct{}{}
	if topOK {
		touched = top.touched
	}
	for i := range txStart.Accts {
		a := o.u.Addrs[i]
		if !(txStart.Accts[i].Exist && txStart.Accts[i].Empty) {
			continue
		}
		if _, ok := touched[a]; ok {
			continue
		}
		if !after.Accts[i].Exist {
			o.report("failed-frame-left-trace:touch", "tx%d: the empty account %s existed before the transaction, no surviving frame touched it, and it is gone after Finalise", t+1, nm(a))
		} else if _, ok := o.touchedInFailed[a]; ok {
			o.probe("empty account touched only inside failed frames survives Finalise")
		}
	}
	o.touchedInFailed = map[common.Address]struct{}{}
}
