// Package evmworld is the EVM world: the real core/vm (EVM, interpreter, instructions, gas
// tables, precompiles) over a real core/state.StateDB, driven the way core/state_transition.go
// drives it (evm.Call / evm.Create followed by statedb.Finalise(true) per transaction). It
// decides C16: failed call frames leave no trace, static frames change nothing, value is
// conserved, gas returned never exceeds gas supplied.
//
// No goroutines, no clock: one run is a plain seeded loop. The "fault" is the frame abort:
// out-of-gas placed at every recorded step of a reference execution (by top-level gas or by
// patching the gas operand of an inner call), plus the failures the generated programs
// produce on purpose (REVERT, INVALID, static violation, depth, insufficient balance, create
// collision, oversized code).
package evmworld

import (
	"encoding/binary"
	"fmt"
	"strings"

	"github.com/youchainhq/go-youchain/common"
	"github.com/youchainhq/go-youchain/core/vm"
)

// ---- program model ---------------------------------------------------------------------

type codeKind int

const (
	kindBase    codeKind = iota // a pre-deployed contract
	kindInit                    // init code of a CREATE/CREATE2 statement or of a creation transaction
	kindRuntime                 // runtime code returned by init code
)

type stmtKind int

const (
	stSstore stmtKind = iota
	stLog
	stCall
	stCreate
	stRead
)

// gas operand modes of a call statement
const (
	gasFixed = iota // PUSH4 <gas>  (patchable)
	gasAll          // GAS          (everything the 63/64 rule allows)
)

// Stmt is one statement of a generated contract body. Every statement leaves the stack as
// it found it (results are POPped), so bodies are straight-line and compose freely.
type Stmt struct {
	Kind stmtKind

	// stSstore: SSTORE(Key, Val); Val is a program-wide distinct non-zero sentinel, or 0 (clear)
	Key int
	Val uint64

	// stLog: MSTORE(0, Topic) ; LOG<NTopics>(0, DataLen, Topic...)
	NTopics int
	Topic   uint64
	DataLen int

	// stCall: Op in CALL, CALLCODE, DELEGATECALL, STATICCALL
	// stRead: Op in BALANCE, EXTCODESIZE, EXTCODEHASH
	Op      vm.OpCode
	Target  common.Address
	ToSelf  bool   // target is ADDRESS (the executing context), Target unused
	Value   uint64 // CALL/CALLCODE value, CREATE endowment
	GasMode int
	Gas     uint32
	ArgLen  int
	RetLen  int

	// stCreate
	Create2 bool
	Salt    uint64
	Init    *Code

	// filled by the assembler
	opPC int // pc of the CALL-family / CREATE op inside the owning code
}

type endKind int

const (
	endStop endKind = iota
	endReturn
	endRevert
	endInvalid
	endUnderflow     // POP on an empty stack
	endBadJump       // JUMP to a non-JUMPDEST (error raised inside the op: CaptureFault path)
	endSelfdestruct  // SELFDESTRUCT(Beneficiary) or SELFDESTRUCT(ADDRESS) when ToSelf
	endReturnRuntime // init code only: RETURN(runtime code)
	endReturnBig     // init code only: RETURN(0, 24577): code too large
)

// Ending terminates a body.
type Ending struct {
	Kind        endKind
	Beneficiary common.Address
	ToSelf      bool
	Len         int   // RETURN / REVERT data length
	Runtime     *Code // endReturnRuntime
}

// Code is one piece of generated code: a base contract, an init code or a runtime code.
type Code struct {
	Name  string
	Kind  codeKind
	Stmts []Stmt
	End   Ending

	Bytes []byte // assembled (own body followed by the embedded children)

	Root         *Code // the container whose bytes are installed in the state / sent as tx data
	Off          int   // offset of Bytes[0] inside Root.Bytes
	UnderCreate2 bool  // this code is (inside) the init code of a CREATE2: patching it moves addresses
	Index        int   // base contracts: index; others: index of the base contract whose code embeds them (-1: tx data)

	createAt map[int]*Stmt // pc of a CREATE/CREATE2 op -> statement
	listing  []string
}

// ---- assembler -------------------------------------------------------------------------

type asm struct {
	b    []byte
	list []string
}

func (a *asm) op(o vm.OpCode) {
	a.list = append(a.list, fmt.Sprintf("%04x  %s", len(a.b), o.String()))
	a.b = append(a.b, byte(o))
}

func (a *asm) raw(o byte, name string) {
	a.list = append(a.list, fmt.Sprintf("%04x  %s", len(a.b), name))
	a.b = append(a.b, o)
}

// push emits PUSH<n> with the big-endian value v (n in 1..8 here) and a comment.
func (a *asm) push(n int, v uint64, comment string) {
	var buf [8]byte
	binary.BigEndian.PutUint64(buf[:], v)
	c := ""
	if comment != "" {
		c = "   ; " + comment
	}
	a.list = append(a.list, fmt.Sprintf("%04x  PUSH%d 0x%x%s", len(a.b), n, v, c))
	a.b = append(a.b, byte(int(vm.PUSH1)+n-1))
	a.b = append(a.b, buf[8-n:]...)
}

func (a *asm) pushAddr(ad common.Address) {
	a.list = append(a.list, fmt.Sprintf("%04x  PUSH20 %s", len(a.b), nm(ad)))
	a.b = append(a.b, byte(vm.PUSH20))
	a.b = append(a.b, ad[:]...)
}

// bodyLen computes the length of the body (without embedded data) of c. All pushes have a
// fixed width, so the length does not depend on the data offsets.
func assemble(c *Code) {
	// children first
	var children []*Code
	for i := range c.Stmts {
		if c.Stmts[i].Kind == stCreate {
			assemble(c.Stmts[i].Init)
			children = append(children, c.Stmts[i].Init)
		}
	}
	if c.End.Kind == endReturnRuntime {
		assemble(c.End.Runtime)
		children = append(children, c.End.Runtime)
	}
	// pass 1 with dummy offsets to learn the body length, pass 2 with the real ones
	offs := make([]int, len(children))
	body := emitBody(c, offs)
	pos := len(body.b)
	for i, ch := range children {
		offs[i] = pos
		pos += len(ch.Bytes)
	}
	body = emitBody(c, offs)
	out := append([]byte(nil), body.b...)
	for i, ch := range children {
		ch.Off = offs[i] // relative to c for now; made absolute by place()
		body.list = append(body.list, fmt.Sprintf("%04x  <data: %s, %d bytes>", offs[i], ch.Name, len(ch.Bytes)))
		out = append(out, ch.Bytes...)
	}
	c.Bytes = out
	c.listing = body.list
}

func emitBody(c *Code, dataOff []int) *asm {
	a := &asm{}
	c.createAt = map[int]*Stmt{}
	child := 0
	for i := range c.Stmts {
		s := &c.Stmts[i]
		switch s.Kind {
		case stSstore:
			a.push(4, s.Val, "sentinel")
			a.push(1, uint64(s.Key), "slot")
			a.op(vm.SSTORE)
		case stLog:
			a.push(4, s.Topic, "log data")
			a.push(1, 0, "")
			a.op(vm.MSTORE)
			for t := 0; t < s.NTopics; t++ {
				a.push(4, s.Topic+uint64(t), "topic")
			}
			a.push(1, uint64(s.DataLen), "size")
			a.push(1, 0, "offset")
			a.op(vm.OpCode(int(vm.LOG0) + s.NTopics))
		case stRead:
			if s.ToSelf {
				a.op(vm.ADDRESS)
			} else {
				a.pushAddr(s.Target)
			}
			a.op(s.Op)
			a.op(vm.POP)
		case stCall:
			a.push(1, uint64(s.RetLen), "retSize")
			a.push(1, 0, "retOffset")
			a.push(1, uint64(s.ArgLen), "argsSize")
			a.push(1, 0, "argsOffset")
			if s.Op == vm.CALL || s.Op == vm.CALLCODE {
				a.push(2, s.Value, "value")
			}
			if s.ToSelf {
				a.op(vm.ADDRESS)
			} else {
				a.pushAddr(s.Target)
			}
			if s.GasMode == gasAll {
				a.op(vm.GAS)
			} else {
				a.push(4, uint64(s.Gas), "gas")
			}
			s.opPC = len(a.b)
			a.op(s.Op)
			// the status word is dropped by the very next step; the oracle reads it there
			a.op(vm.POP)
		case stCreate:
			init := s.Init
			a.push(2, uint64(len(init.Bytes)), "init size")
			a.push(2, uint64(dataOff[child]), "init offset in code ("+init.Name+")")
			a.push(1, 0, "dest")
			a.op(vm.CODECOPY)
			if s.Create2 {
				a.push(4, s.Salt, "salt")
			}
			a.push(2, uint64(len(init.Bytes)), "size")
			a.push(1, 0, "offset")
			a.push(2, s.Value, "endowment")
			s.opPC = len(a.b)
			if s.Create2 {
				a.op(vm.CREATE2)
			} else {
				a.op(vm.CREATE)
			}
			a.op(vm.POP)
			c.createAt[s.opPC] = s
			child++
		}
	}
	switch c.End.Kind {
	case endStop:
		a.op(vm.STOP)
	case endReturn, endRevert:
		a.push(1, uint64(c.End.Len), "size")
		a.push(1, 0, "offset")
		if c.End.Kind == endReturn {
			a.op(vm.RETURN)
		} else {
			a.op(vm.REVERT)
		}
	case endInvalid:
		a.raw(0xfe, "INVALID")
	case endUnderflow:
		a.op(vm.POP)
	case endBadJump:
		a.push(2, 0xffff, "not a JUMPDEST")
		a.op(vm.JUMP)
	case endSelfdestruct:
		if c.End.ToSelf {
			a.op(vm.ADDRESS)
		} else {
			a.pushAddr(c.End.Beneficiary)
		}
		a.op(vm.SELFDESTRUCT)
	case endReturnRuntime:
		rt := c.End.Runtime
		a.push(2, uint64(len(rt.Bytes)), "runtime size")
		a.push(2, uint64(dataOff[child]), "runtime offset in code ("+rt.Name+")")
		a.push(1, 0, "dest")
		a.op(vm.CODECOPY)
		a.push(2, uint64(len(rt.Bytes)), "size")
		a.push(1, 0, "offset")
		a.op(vm.RETURN)
	case endReturnBig:
		a.push(2, 24577, "one byte more than the code size limit")
		a.push(1, 0, "offset")
		a.op(vm.RETURN)
	}
	return a
}

// place makes the Off fields absolute inside root and propagates Root / UnderCreate2 / Index.
func place(c, root *Code, abs int, under2 bool, index int) {
	c.Root, c.Off, c.UnderCreate2, c.Index = root, abs, under2, index
	for i := range c.Stmts {
		if s := &c.Stmts[i]; s.Kind == stCreate {
			place(s.Init, root, abs+s.Init.Off, under2 || s.Create2, index)
		}
	}
	if c.End.Kind == endReturnRuntime {
		place(c.End.Runtime, root, abs+c.End.Runtime.Off, under2, index)
	}
}

// finish assembles a root code and fixes the absolute offsets of everything embedded in it.
func finish(root *Code, index int) {
	assemble(root)
	root.Off = 0
	place(root, root, 0, false, index)
}

// Listing returns the assembly listing of c and, indented, of everything embedded in it.
func (c *Code) Listing() []string {
	out := []string{fmt.Sprintf("%s: (%d bytes)", c.Name, len(c.Bytes))}
	for _, l := range c.listing {
		out = append(out, "  "+l)
	}
	for i := range c.Stmts {
		if c.Stmts[i].Kind == stCreate {
			for _, l := range c.Stmts[i].Init.Listing() {
				out = append(out, "    "+l)
			}
		}
	}
	if c.End.Kind == endReturnRuntime {
		for _, l := range c.End.Runtime.Listing() {
			out = append(out, "    "+l)
		}
	}
	return out
}

// walk visits c and every code embedded in it.
func (c *Code) walk(f func(*Code)) {
	f(c)
	for i := range c.Stmts {
		if c.Stmts[i].Kind == stCreate {
			c.Stmts[i].Init.walk(f)
		}
	}
	if c.End.Kind == endReturnRuntime {
		c.End.Runtime.walk(f)
	}
}

func hexShort(b []byte) string {
	s := fmt.Sprintf("%x", b)
	if len(s) > 24 {
		return s[:24] + "…"
	}
	return s
}

var _ = strings.Join
