package chainkit

import (
	"fmt"
	"math/big"
	"sort"
	"sync"
	"time"

	"verifsim/simdisk"

	"github.com/youchainhq/go-youchain/common"
	"github.com/youchainhq/go-youchain/consensus"
	"github.com/youchainhq/go-youchain/consensus/ucon"
	"github.com/youchainhq/go-youchain/core"
	"github.com/youchainhq/go-youchain/core/types"
	"github.com/youchainhq/go-youchain/event"
	"github.com/youchainhq/go-youchain/local"
	"github.com/youchainhq/go-youchain/miner"
	"github.com/youchainhq/go-youchain/params"
	"github.com/youchainhq/go-youchain/staking"
)

// ForgeEngine is the consensus engine of the builder node in the CHAIN world: the real
// ucon.Server (un-started: exactly what a non-validator full node runs for verification,
// FinalizeAndAssemble, CompareBlocks, ...) with only GetValMainAddress/Prepare/Seal replaced by
// the forge, so that the real miner.worker builds blocks that carry genuine proposer
// credentials and a genuine precommit quorum without consensus rounds being run.
type ForgeEngine struct {
	*ucon.Server
	Chain LookBackChain
	Keys  []*ValKey // every validator key the simulator holds, in a fixed order

	// choices for the next block (set by the simulator before it triggers the worker)
	StartIndex    uint32 // first round index to try (>= 1)
	ProposerOrder []int  // order in which Keys are tried as proposer

	// Tamper, if set, may replace the sealed block (Byzantine proposer).
	Tamper func(ctx *Ctx, honest *types.Block, votes []*SignedVote) *types.Block

	mu       sync.Mutex
	ctx      *Ctx
	proposer *ValKey
	cred     *ucon.BlockConsensusData
	LastErr  error
	// LastVotes are the votes packed into the last sealed block.
	LastVotes []*SignedVote
	LastCtx   *Ctx
}

// plan picks (index, proposer) for block `number`: the first index >= StartIndex at which some
// online chamber validator (tried in ProposerOrder) wins a proposer seat.
func (e *ForgeEngine) plan(number uint64) error {
	start := e.StartIndex
	if start == 0 {
		start = 1
	}
	for idx := start; idx < start+50; idx++ {
		ctx, err := NewCtx(e.Chain, number, idx)
		if err != nil {
			return err
		}
		order := e.ProposerOrder
		if len(order) != len(e.Keys) {
			order = make([]int, len(e.Keys))
			for i := range order {
				order[i] = i
			}
		}
		for _, ki := range order {
			k := e.Keys[ki]
			v := StakeOf(ctx, k)
			if v == nil || v.Status != params.ValidatorOnline || v.Kind() != params.KindChamber {
				continue
			}
			cd, ok, err := ProposerCredential(ctx, k, v.Stake, ctx.YP.ProposerThreshold, ctx.YP.ValidatorThreshold, ctx.YP.CertValThreshold)
			if err != nil {
				return err
			}
			if ok {
				e.ctx, e.proposer, e.cred = ctx, k, cd
				return nil
			}
		}
	}
	return fmt.Errorf("forge: no proposer found for block %d", number)
}

// GetValMainAddress is called by the worker first: it fixes the proposer of the next block.
func (e *ForgeEngine) GetValMainAddress() common.Address {
	e.mu.Lock()
	defer e.mu.Unlock()
	head := e.Chain.(interface{ CurrentHeader() *types.Header }).CurrentHeader()
	if err := e.plan(head.Number.Uint64() + 1); err != nil {
		e.LastErr = err
		return common.Address{}
	}
	return e.proposer.Addr
}

// Prepare writes the planned proposer credential into the header.
func (e *ForgeEngine) Prepare(chain consensus.ChainReader, header *types.Header) error {
	e.mu.Lock()
	defer e.mu.Unlock()
	if e.cred == nil || e.ctx == nil || e.ctx.Round != header.Number.Uint64() {
		return fmt.Errorf("forge: no plan for block %v", header.Number)
	}
	b, err := ucon.PrepareConsensusData(header, e.cred)
	if err != nil {
		return err
	}
	header.Consensus = b
	header.MixDigest = types.UConMixHash
	return nil
}

// Seal signs the header and attaches an honest precommit quorum.
func (e *ForgeEngine) Seal(chain consensus.ChainReader, block *types.Block, stop <-chan struct{}) (*types.Block, error) {
	e.mu.Lock()
	defer e.mu.Unlock()
	var (
		sealed *types.Block
		votes  []*SignedVote
		err    error
	)
	func() {
		// The forge computes the honest network's credentials with the real sortition code. On
		// look-back states no real network can run on (total online stake below the committee
		// size makes the selection probability exceed 1, and the binomial library panics) that
		// is a dead end of the GENERATOR, found by the thorough tier: no block is built, the
		// caller sees the error. (The same call would take down a real validator; sortition
		// robustness is C04's subject, not applicable to this technique.)
		defer func() {
			if v := recover(); v != nil {
				err = fmt.Errorf("forge dead end: sortition on the look-back state panicked: %v", v)
			}
		}()
		sealed, votes, err = SealHonest(e.ctx, block, e.proposer, e.Keys)
	}()
	if err != nil {
		e.LastErr = err
		return nil, err
	}
	e.LastVotes, e.LastCtx = votes, e.ctx
	if e.Tamper != nil {
		if t := e.Tamper(e.ctx, sealed, votes); t != nil {
			sealed = t
		}
	}
	return sealed, nil
}

// Builder is the block-building node of the CHAIN world.
type Builder struct {
	Disk   *simdisk.Disk
	Mux    *event.TypeMux
	Engine *ForgeEngine
	Chain  *core.BlockChain
	Pool   *core.TxPool
	Stk    *staking.Staking
	Miner  *miner.Miner

	obMu     sync.Mutex
	outbox   []interface{}
	headEvts int
}

func (b *Builder) BlockChain() *core.BlockChain { return b.Chain }
func (b *Builder) TxPool() *core.TxPool         { return b.Pool }

// NewBuilder constructs the builder inside the current bubble: real BlockChain, TxPool,
// staking module and miner.Miner (worker) over the forge engine. The mux is owned by the
// simulator (hook H1): chain-head events are held back until Build is called, so that the
// foreground (new transactions) / background (pool reset, worker) interleaving is decided by
// the simulator, not by the Go scheduler.
func NewBuilder(disk *simdisk.Disk, genesis *core.Genesis, keys []*ValKey, poolCfg core.TxPoolConfig) (*Builder, error) {
	b := &Builder{Disk: disk, Mux: new(event.TypeMux)}
	b.Mux.SimAttach(func(ev interface{}) {
		b.obMu.Lock()
		b.outbox = append(b.outbox, ev)
		b.obMu.Unlock()
	})
	srv, err := ucon.NewVRFServer(disk)
	if err != nil {
		return nil, err
	}
	b.Engine = &ForgeEngine{Server: srv, Keys: keys}
	if _, err := core.SetupGenesisBlock(disk, genesis.NetworkId, genesis); err != nil {
		return nil, err
	}
	b.Chain, err = core.NewBlockChain(disk, b.Engine, b.Mux, params.ArchiveNode, local.FakeDetailDB())
	if err != nil {
		return nil, err
	}
	b.Engine.Chain = b.Chain
	b.Stk = staking.NewStaking(b.Mux)
	b.Stk.Register(b.Chain.Processor())
	if err := b.Stk.Start(b.Chain, b.Engine); err != nil {
		return nil, err
	}
	poolCfg.Journal = ""
	b.Pool = core.NewTxPool(poolCfg, b.Chain)
	b.Miner = miner.NewMiner(b, b.Mux, b.Engine, nil)
	return b, nil
}

// drain returns and clears the captured mux events in a canonical order.
func (b *Builder) drain() []interface{} {
	b.obMu.Lock()
	evs := b.outbox
	b.outbox = nil
	b.obMu.Unlock()
	sort.SliceStable(evs, func(i, j int) bool { return fmt.Sprintf("%T", evs[i]) < fmt.Sprintf("%T", evs[j]) })
	return evs
}

// Settle delivers every captured mux event except chain-head events (which trigger the next
// block) to its subscribers and waits for quiescence. wait is kit.Wait.
func (b *Builder) Settle(wait func()) {
	for round := 0; round < 8; round++ {
		wait()
		evs := b.drain()
		if len(evs) == 0 {
			return
		}
		for _, ev := range evs {
			if _, ok := ev.(core.ChainHeadEvent); ok {
				b.headEvts++
				continue
			}
			for _, sub := range b.Mux.SimSubscribers(ev) {
				done := make(chan struct{})
				go func() { defer close(done); sub.SimDeliver(ev) }()
				wait()
				<-done
			}
		}
	}
}

// PostEvidence hands an evidence to the staking module the way the engine's detector and
// dev_api do (through the mux).
func (b *Builder) PostEvidence(ev staking.Evidence, wait func()) {
	b.Mux.Post(ev)
	b.Settle(wait)
}

// Start starts the miner; the first block is built at once (worker.start sends new work).
func (b *Builder) Start(wait func()) (*types.Block, error) {
	before := b.Chain.CurrentBlock().NumberU64()
	b.Miner.Start()
	b.Settle(wait)
	return b.result(before)
}

// Build makes the worker build, seal (forge) and write the next block on the current head.
// Simulated time must have advanced by at least one second since the previous block.
func (b *Builder) Build(wait func()) (*types.Block, error) {
	before := b.Chain.CurrentBlock().NumberU64()
	b.Engine.LastErr = nil
	ev := core.ChainHeadEvent{Block: b.Chain.CurrentBlock()}
	subs := b.Mux.SimSubscribers(ev)
	for _, sub := range subs {
		done := make(chan struct{})
		go func() { defer close(done); sub.SimDeliver(ev) }()
		wait()
		<-done
	}
	b.Settle(wait)
	return b.result(before)
}

func (b *Builder) result(before uint64) (*types.Block, error) {
	head := b.Chain.CurrentBlock()
	if head.NumberU64() != before+1 {
		if b.Engine.LastErr != nil {
			return nil, b.Engine.LastErr
		}
		return nil, fmt.Errorf("builder: head did not advance (still %d)", head.NumberU64())
	}
	return head, nil
}

// Stop stops the builder's goroutines.
func (b *Builder) Stop(wait func()) {
	b.Mux.SimAttach(nil)
	b.Miner.Stop()
	b.Miner.Close()
	b.Pool.Stop()
	b.Stk.Stop()
	b.Chain.Stop()
	b.Mux.Stop()
	wait()
}

// Importer is a verifying full node: un-started real ucon.Server as engine, real BlockChain,
// staking module registered; blocks reach it through InsertChain only.
type Importer struct {
	Disk   *simdisk.Disk
	Mux    *event.TypeMux
	Engine *ucon.Server
	Chain  *core.BlockChain
	Stk    *staking.Staking
}

// NewImporter opens (or initialises) an importer on disk.
func NewImporter(disk *simdisk.Disk, genesis *core.Genesis, wait func()) (*Importer, error) {
	im := &Importer{Disk: disk, Mux: new(event.TypeMux)}
	var err error
	im.Engine, err = ucon.NewVRFServer(disk)
	if err != nil {
		return nil, err
	}
	if _, err := core.SetupGenesisBlock(disk, genesis.NetworkId, genesis); err != nil {
		return nil, err
	}
	im.Chain, err = core.NewBlockChain(disk, im.Engine, im.Mux, params.ArchiveNode, local.FakeDetailDB())
	if err != nil {
		return nil, err
	}
	im.Stk = staking.NewStaking(im.Mux)
	im.Stk.Register(im.Chain.Processor())
	if err := im.Stk.Start(im.Chain, im.Engine); err != nil {
		return nil, err
	}
	wait()
	return im, nil
}

// Stop stops the importer's goroutines.
func (im *Importer) Stop(wait func()) {
	im.Stk.Stop()
	im.Chain.Stop()
	im.Mux.Stop()
	wait()
}

// Signer returns the transaction signer of the test network.
func Signer() types.Signer { return types.MakeSigner(big.NewInt(1)) }

var _ = time.Second
