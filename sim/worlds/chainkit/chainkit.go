// Package chainkit holds what the NET, VOTER and CHAIN worlds share: validator key material
// (taken from the repository's own consensus test data), genesis construction and the
// construction of a full node (real ucon.Server + real core.BlockChain on a simulated disk).
package chainkit

import (
	"crypto/ecdsa"
	_ "embed"
	"encoding/json"
	"fmt"
	"math/big"
	"sync"

	"verifsim/simdisk"

	"github.com/youchainhq/go-youchain/bls"
	"github.com/youchainhq/go-youchain/common"
	"github.com/youchainhq/go-youchain/consensus/ucon"
	"github.com/youchainhq/go-youchain/core"
	"github.com/youchainhq/go-youchain/crypto"
	"github.com/youchainhq/go-youchain/crypto/vrf"
	secp256k1VRF "github.com/youchainhq/go-youchain/crypto/vrf/secp256k1"
	"github.com/youchainhq/go-youchain/event"
	"github.com/youchainhq/go-youchain/local"
	"github.com/youchainhq/go-youchain/params"
)

//go:embed keys.json
var keysJSON []byte

//go:embed genesis_tpl.json
var genesisTpl []byte

// ValKey is the key material of one validator.
type ValKey struct {
	Idx      int
	Priv     *ecdsa.PrivateKey
	Addr     common.Address // main (consensus) address = address of Priv
	MainPub  []byte         // compressed secp256k1 public key
	VrfSk    vrf.PrivateKey
	BlsSk    bls.SecretKey
	BlsSkRaw []byte
	BlsPub   []byte // compressed
	Coinbase common.Address
}

// Name is a short stable name for traces.
func (k *ValKey) Name() string { return fmt.Sprintf("V%d", k.Idx) }

var (
	keysOnce sync.Once
	keys     []*ValKey
	// BlsMgr is a shared (stateless) BLS manager.
	BlsMgr = bls.NewBlsManager()
)

// Keys returns the 16 validator keys (first entries of consensus/ucon/testdata/ucon.json).
func Keys() []*ValKey {
	keysOnce.Do(func() {
		var raw []struct {
			Uconkey    string `json:"uconkey"`
			Coinbase   string `json:"coinbase"`
			BLSSignkey string `json:"blssignkey"`
		}
		if err := json.Unmarshal(keysJSON, &raw); err != nil {
			panic(err)
		}
		for i, u := range raw {
			priv, err := crypto.HexToECDSA(u.Uconkey)
			if err != nil {
				panic(err)
			}
			vsk, err := secp256k1VRF.NewVRFSigner(priv)
			if err != nil {
				panic(err)
			}
			bsk, err := BlsMgr.DecSecretKeyHex(u.BLSSignkey)
			if err != nil {
				panic(err)
			}
			bpk, err := bsk.PubKey()
			if err != nil {
				panic(err)
			}
			keys = append(keys, &ValKey{
				Idx: i + 1, Priv: priv, Addr: crypto.PubkeyToAddress(priv.PublicKey),
				MainPub: crypto.CompressPubkey(&priv.PublicKey), VrfSk: vsk, BlsSk: bsk,
				BlsSkRaw: common.FromHex(u.BLSSignkey), BlsPub: bpk.Compress().Bytes(),
				Coinbase: common.HexToAddress(u.Coinbase),
			})
		}
	})
	return keys
}

// KeyByAddr finds a validator key by main address.
func KeyByAddr(a common.Address) *ValKey {
	for _, k := range Keys() {
		if k.Addr == a {
			return k
		}
	}
	return nil
}

// GenVal describes one genesis validator.
type GenVal struct {
	Key    *ValKey
	Stake  uint64 // in stake units (tokens = Stake * params.StakeUint)
	Role   params.ValidatorRole
	Status uint8
}

// ClientKey returns the i-th client (transaction sender) key; clients are funded at genesis.
func ClientKey(i int) *ecdsa.PrivateKey {
	d := make([]byte, 32)
	d[0] = 0x33
	d[31] = byte(i + 1)
	k, err := crypto.ToECDSA(d)
	if err != nil {
		panic(err)
	}
	return k
}

// NClients is the number of funded client accounts.
const NClients = 8

// MakeGenesis builds a genesis from the repository's consensus-test template with the given
// validators, protocol version and funded client accounts. Network id 99 selects the
// repository's test-case parameter set (params.protocolsForTestCase).
func MakeGenesis(vals []GenVal, version params.YouVersion) *core.Genesis {
	g := new(core.Genesis)
	if err := g.UnmarshalJSON(genesisTpl); err != nil {
		panic(err)
	}
	g.CurrVersion = version
	g.Validators = core.GenesisValidators{}
	for _, v := range vals {
		g.Validators[v.Key.Addr] = core.GenesisValidator{
			Name:            v.Key.Name(),
			OperatorAddress: v.Key.Coinbase,
			Coinbase:        v.Key.Coinbase,
			Token:           new(big.Int).Mul(new(big.Int).SetUint64(v.Stake), params.StakeUint),
			MainPubKey:      v.Key.MainPub,
			BlsPubKey:       v.Key.BlsPub,
			Role:            v.Role,
			Status:          v.Status,
		}
	}
	fund := new(big.Int).Mul(big.NewInt(1_000_000_000), params.StakeUint)
	for i := 0; i < NClients; i++ {
		g.Alloc[crypto.PubkeyToAddress(ClientKey(i).PublicKey)] = core.GenesisAccount{Balance: new(big.Int).Set(fund)}
	}
	for _, v := range vals {
		// validator operators pay for staking transactions
		if _, ok := g.Alloc[v.Key.Coinbase]; !ok {
			g.Alloc[v.Key.Coinbase] = core.GenesisAccount{Balance: new(big.Int).Set(fund)}
		}
	}
	return g
}

// Node is one full node: a real consensus engine and a real block chain over a simulated disk.
type Node struct {
	Key    *ValKey // nil for a non-validator (verifier-only) node
	Disk   *simdisk.Disk
	Mux    *event.TypeMux
	Engine *ucon.Server
	Chain  *core.BlockChain
}

// NewNode opens (or, on an empty disk, initialises from genesis) a node on the given disk
// through the real constructors: SetupGenesisBlock, NewVRFServer, NewBlockChain. The engine is
// not started; call StartMining on it for a validator.
func NewNode(disk *simdisk.Disk, genesis *core.Genesis, key *ValKey) (*Node, error) {
	n := &Node{Key: key, Disk: disk, Mux: new(event.TypeMux)}
	engine, err := ucon.NewVRFServer(disk)
	if err != nil {
		return nil, fmt.Errorf("NewVRFServer: %v", err)
	}
	if _, err := core.SetupGenesisBlock(disk, genesis.NetworkId, genesis); err != nil {
		return nil, fmt.Errorf("SetupGenesisBlock: %v", err)
	}
	chain, err := core.NewBlockChain(disk, engine, n.Mux, params.ArchiveNode, local.FakeDetailDB())
	if err != nil {
		return nil, fmt.Errorf("NewBlockChain: %v", err)
	}
	n.Engine, n.Chain = engine, chain
	if key != nil {
		if err := engine.SetValKey(key.Priv, key.BlsSkRaw); err != nil {
			return nil, fmt.Errorf("SetValKey: %v", err)
		}
	}
	return n, nil
}
