package chainkit

import (
	"encoding/binary"
	"fmt"
	"math/big"

	"github.com/youchainhq/go-youchain/bls"
	"github.com/youchainhq/go-youchain/common"
	"github.com/youchainhq/go-youchain/consensus/ucon"
	"github.com/youchainhq/go-youchain/core/state"
	"github.com/youchainhq/go-youchain/core/types"
	"github.com/youchainhq/go-youchain/crypto"
	"github.com/youchainhq/go-youchain/params"
)

// The forge: the *signing* side of ucon re-assembled from exported primitives
// (VrfSortition, ComputeSeed, VrfComputePriority, BlockConsensusData.SetSignature,
// UconValidators, the BLS manager) for validators whose keys the simulator holds. It lets the
// CHAIN world grow real chains without running consensus rounds, and lets the Byzantine
// forger of C01 build headers from genuine quorum material. If the real verifier rejects an
// honest forge block on the unchanged tree, that is a harness bug (positive controls in C01
// and the real-engine blocks of NET keep the forge honest).

// LookBackChain is what the forge reads: headers by number and validator sets by root.
type LookBackChain interface {
	GetHeaderByNumber(number uint64) *types.Header
	GetVldReader(valRoot common.Hash) (state.ValidatorReader, error)
	VersionForRound(round uint64) (*params.YouParams, error)
}

// Ctx is everything that determines credentials for one (round, index).
type Ctx struct {
	Round      uint64
	Index      uint32
	Seed       common.Hash // seed of the seed-look-back header
	Vals       *state.Validators
	TotalStake *big.Int // online chamber stake in the stake-look-back validator set
	YP         *params.YouParams
}

func lookBack(num, cfg uint64) uint64 {
	if num > cfg {
		return num - cfg
	}
	return 0
}

// NewCtx gathers the look-back data for block `number` at round index `index`.
func NewCtx(chain LookBackChain, number uint64, index uint32) (*Ctx, error) {
	yp, err := chain.VersionForRound(number)
	if err != nil {
		return nil, err
	}
	seedHeader := chain.GetHeaderByNumber(lookBack(number, yp.SeedLookBack))
	stakeHeader := chain.GetHeaderByNumber(lookBack(number, yp.StakeLookBack))
	if seedHeader == nil || stakeHeader == nil {
		return nil, fmt.Errorf("forge: look-back header missing for %d", number)
	}
	cd, err := ucon.GetConsensusDataFromHeader(seedHeader)
	if err != nil {
		return nil, err
	}
	vr, err := chain.GetVldReader(stakeHeader.ValRoot)
	if err != nil {
		return nil, err
	}
	stat, err := vr.GetValidatorsStat()
	if err != nil {
		return nil, err
	}
	return &Ctx{Round: number, Index: index, Seed: cd.Seed, Vals: vr.GetValidators(),
		TotalStake: stat.GetStakeByKind(params.KindChamber), YP: yp}, nil
}

// ProposerCredential computes key's proposer credential in ctx; ok=false if it did not win a seat.
// thresholds are the values written into the consensus data (normally the protocol's).
func ProposerCredential(ctx *Ctx, key *ValKey, stake *big.Int, proposerTh, validatorTh, certTh uint64) (*ucon.BlockConsensusData, bool, error) {
	value, proof, j := ucon.VrfSortition(key.VrfSk, ctx.Seed, ctx.Index, ucon.UConStepProposal, proposerTh, stake, ctx.TotalStake)
	if j == 0 {
		return nil, false, nil
	}
	round := new(big.Int).SetUint64(ctx.Round)
	seed, _ := ucon.ComputeSeed(key.VrfSk, round, ctx.Index, ctx.Seed)
	cd := &ucon.BlockConsensusData{
		Round: round, RoundIndex: ctx.Index, Seed: seed, SortitionProof: proof,
		Priority: ucon.VrfComputePriority(value, j), SubUsers: j,
		ProposerThreshold: proposerTh, ValidatorThreshold: validatorTh, CertValThreshold: certTh,
	}
	if err := cd.SetSignature(key.Priv); err != nil {
		return nil, false, err
	}
	return cd, true, nil
}

// StakeOf returns key's validator record in ctx's look-back set (nil if not a member).
func StakeOf(ctx *Ctx, key *ValKey) *state.Validator {
	idx, ok := ctx.Vals.GetIndex(key.Addr)
	if !ok {
		return nil
	}
	v, _ := ctx.Vals.GetByIndex(idx)
	return v
}

// VotePayload is what a vote signs: headerHash || round bytes || uint32(index).
func VotePayload(headerHash common.Hash, round uint64, index uint32) []byte {
	var ib [4]byte
	binary.BigEndian.PutUint32(ib[:], index)
	p := append([]byte{}, headerHash.Bytes()...)
	p = append(p, new(big.Int).SetUint64(round).Bytes()...)
	return append(p, ib[:]...)
}

// SignedVote is one vote with its individual BLS signature.
type SignedVote struct {
	Key    *ValKey
	Vote   ucon.SingleVote // Signature empty (it lives in Sig)
	Sig    bls.Signature
	SigRaw []byte
	Weight uint32
}

// Vote computes key's vote of the given step (ucon.Prevote/Precommit/NextIndex/Certificate as
// uint32) for headerHash in ctx; ok=false if the sortition gives no seat. `threshold` is the
// committee size used for the sortition (normally the protocol's ValidatorThreshold).
func Vote(ctx *Ctx, key *ValKey, step uint32, headerHash common.Hash, threshold uint64) (*SignedVote, bool) {
	v := StakeOf(ctx, key)
	if v == nil {
		return nil, false
	}
	_, proof, j := ucon.VrfSortition(key.VrfSk, ctx.Seed, ctx.Index, step, threshold, v.Stake, ctx.TotalStake)
	if j == 0 {
		return nil, false
	}
	idx, _ := ctx.Vals.GetIndex(key.Addr)
	sig := key.BlsSk.Sign(VotePayload(headerHash, ctx.Round, ctx.Index))
	return &SignedVote{Key: key, Vote: ucon.SingleVote{VoterIdx: uint32(idx), Votes: j, Proof: proof}, Sig: sig, SigRaw: sig.Compress().Bytes(), Weight: j}, true
}

// Pack builds header.Validator from votes (aggregating their signatures) and the empty
// certificate section of a non-certificate round.
func Pack(index uint32, votes []*SignedVote) (validator, certificate []byte, err error) {
	uv := &ucon.UconValidators{RoundIndex: index, SCAggrSig: []byte{}, MCAggrSig: []byte{}}
	var sigs []bls.Signature
	for _, sv := range votes {
		uv.ChamberCommitters = append(uv.ChamberCommitters, sv.Vote)
		sigs = append(sigs, sv.Sig)
	}
	if len(sigs) > 0 {
		agg, err := BlsMgr.Aggregate(sigs)
		if err != nil {
			return nil, nil, err
		}
		uv.SCAggrSig = agg.Compress().Bytes()
	}
	validator, err = uv.ValidatorsToByte()
	if err != nil {
		return nil, nil, err
	}
	certificate, err = (&ucon.UconValidators{RoundIndex: index}).ValidatorsToByte()
	return validator, certificate, err
}

// Quorum is the protocol quorum: floor(committee * 685 / 1000).
func Quorum(committee uint64) uint64 { return committee * 685 / 1000 }

// SealHonest completes `block` (whose header already carries the proposer's consensus data)
// the way an honest network would: proposer signature over the header hash, precommit votes of
// every online chamber validator in `voters` that wins seats, aggregated.
func SealHonest(ctx *Ctx, block *types.Block, proposer *ValKey, voters []*ValKey) (*types.Block, []*SignedVote, error) {
	header := block.Header()
	sig, err := crypto.Sign(header.Hash().Bytes(), proposer.Priv)
	if err != nil {
		return nil, nil, err
	}
	header.Signature = sig
	hh := header.Hash()
	var votes []*SignedVote
	for _, k := range voters {
		v := StakeOf(ctx, k)
		if v == nil || v.Status != params.ValidatorOnline || v.Kind() != params.KindChamber {
			continue
		}
		if sv, ok := Vote(ctx, k, uint32(ucon.Precommit), hh, ctx.YP.ValidatorThreshold); ok {
			votes = append(votes, sv)
		}
	}
	header.Validator, header.Certificate, err = Pack(ctx.Index, votes)
	if err != nil {
		return nil, nil, err
	}
	return block.WithSeal(header), votes, nil
}
