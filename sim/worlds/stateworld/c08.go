package stateworld

import (
	"fmt"
	"math/big"
	"sort"
	"strings"
	"time"

	"verifsim/kit"
	"verifsim/simdisk"

	"github.com/youchainhq/go-youchain/common"
	"github.com/youchainhq/go-youchain/core/state"
	"github.com/youchainhq/go-youchain/params"
)

func init() {
	kit.Register(&kit.Check{
		Prop: "C08", Name: "state", World: "STATE", Level: "exploration",
		Rule: "one run = a seeded block sequence on a real StateDB over the simulated disk. Per transaction a seeded mix of validator mutations in the call patterns of the staking module " +
			"(CreateValidator; PartialCopy+UpdateValidator for deposit/withdraw(-all)/status/describe/rewards/settle/expel; in-place edits of GetValidatorsForUpdate() entries + UpdateValidator(val, old); " +
			"UpdateDelegation add/sub(-all); withdraw-queue add/remove; staking records) and account mutations, with nested Snapshot/RevertToSnapshot (fault abort.revert); per block an EndBlock phase " +
			"(penalty as takePenalty does it incl. in-place edits of delegation entries and withdraw records, recover-from-expel, reward-pool edits of the statistics object, withdraw-queue processing), then IntermediateRoot(true) " +
			"(zero-token validators are deleted there). Between blocks a seeded continuation: same object (side-chain verification), Commit + TrieDB().Commit of the three roots + state.New on the same Database, " +
			"the same with a RESTART (fresh state.Database over simdisk.Restart(), fault restart) optionally after TrieDB().Cap(limit) (fault cap-flush), or continue on Copy() (fault copy-switch, also mid-transaction). " +
			"Oracle, after EVERY operation and again on the reopened/restarted state: (1) GetValidatorsStat() online/offline stake, token and count per role and per kind == recomputation from the validator records " +
			"(every validator loadable by address); (2) GetValidatorsForUpdate() (the address index) lists exactly the loadable validators and never panics; (3) for every delegator account GetDelegationsFrom/GetCountOfDelegateTo " +
			"name exactly the validators whose Delegations hold an entry for it; (4) per validator Token == SelfToken + sum(Delegations.Token), Stake == SelfStake + sum(Delegations.Stake), every component stake == token / StakeUint, " +
			"Delegations sorted and unique. Clause (4) is maintained by the CALLERS (staking handlers), not by StateDB: here it decides only that UpdateDelegation, PartialCopy/UpdateValidator, the journal, Copy and commit/reload " +
			"preserve what a caller following teDeposit/teWithdraw/teDelegationAdd/Sub/takePenalty computed; the handlers' own arithmetic is decided in the CHAIN world. After commit the validator-side observation of the reopened state and " +
			"of a NewVldReader on the validator root (the consensus read path) must equal the live object's. (5) in a third of the EndBlock phases GetValidators().List() is read on the object being mutated, as distributeRewards " +
			"does before YouV5 (staking/endblock.go:304): it must be the current records. A run is non-trivial when a revert, restart, cap flush or copy switch fired.",
		Real: []string{"core/state (StateDB, journal, validators, statistics, withdraw queue, delegations)", "core/state.Database", "trie.Database", "trie"},
		Stub: []string{"callers of StateDB (operation patterns copied from staking/*.go, core/genesis.go and core/blockchain.go call sites; each generator names its site)"},
		FaultsNotInjected: []string{
			"RemoveValidator: exported but has no production caller (it would double-decrement the statistics at the next IntermediateRoot; noted, not driven)",
			"role changes: no production code path changes Validator.Role after creation",
			"continuing on a StateDB after Commit: production discards the object after WriteBlockWithState",
			"staking-record writes between Snapshot and Revert: not journalled by design",
		},
		Assumptions: []string{"per-validator sum clauses hold only for callers that keep them (see rule); delegators are externally owned accounts with nonce >= 1 that never self-destruct"},
		QuickBudget: 40 * time.Second, ThoroughBudget: 12 * time.Minute,
		MinRuns:    50,
		Exec:       runC08,
		PanicClass: kit.PanicInRepo("state-panic"),
		// reach probes every batch is expected to hit (listed in the evidence as probes_never_hit otherwise)
		ExpectedProbes: []string{"delegation-created", "delegation-removed", "getvalidators-cache-stale-on-mutated-object", "getvalidators-on-live-object", "penalty-applied", "reverted:createval", "reverted:deleg", "reverted:rmwd", "reverted:updinplace", "reverted:updval1", "reverted:updval2", "reverted:updval6", "validator-created", "validator-token-reached-zero", "zero-token-validator-deleted"},
	})
}

type c08Frame struct {
	id  int
	ops []string // names of the mutations applied since this snapshot
}

func runC08(r *kit.Run) {
	c := r.C
	env := newEnv()
	m := &Mutator{r: r, ValidatorWeight: 3 + c.Intn("valweight", 3), AccountWeight: 1, NoContracts: true}
	st := env.St
	nBlocks := 1 + c.Intn("blocks", 4)
	for b := 0; b < nBlocks; b++ {
		m.height = uint64(b + 1)
		bhash := common.BigToHash(big.NewInt(int64(1000 + b)))
		nTx := c.Intn("txs", 4)
		for tx := 0; tx < nTx; tx++ {
			st.Prepare(common.BigToHash(big.NewInt(int64(b*100+tx+1))), bhash, tx)
			// staking handlers write their records at transaction time, outside any revert
			if c.Chance("stakerec", 1, 5) {
				m.stakingRecord(st)
			}
			var stack []c08Frame
			nOps := 1 + c.Intn("ops", 12)
			for i := 0; i < nOps; i++ {
				r.Steps++
				switch c.Weighted("action", []int{14, 4, 4, 1}) {
				case 0:
					tok := m.Step(st)
					r.FP(tok)
					name := strings.SplitN(tok, "/", 2)[0]
					for j := range stack {
						stack[j].ops = append(stack[j].ops, name)
					}
					c08Probes(r, tok)
				case 1:
					if len(stack) >= 6 {
						continue
					}
					id := st.Snapshot()
					stack = append(stack, c08Frame{id: id})
					r.Logf("Snapshot -> %d", id)
					r.FP("snap")
				case 2:
					if len(stack) == 0 {
						continue
					}
					j := len(stack) - 1 - c.Intn("revert-to", len(stack))
					f := stack[j]
					r.Fault("abort.revert")
					for _, n := range f.ops {
						switch n {
						case "createval", "deleg", "updval1", "updval2", "updval6", "updinplace", "rmwd":
							r.Probe("reverted:" + n)
						}
					}
					r.Logf("RevertToSnapshot %d (undoing %d mutations)", f.id, len(f.ops))
					st.RevertToSnapshot(f.id)
					stack = stack[:j]
					r.FP("revert")
				case 3:
					// continue on a copy taken in the middle of a transaction; snapshots of the
					// original cannot be applied to the copy (documented), so forget them
					if ns := c08CopySwitch(r, st, "mid-transaction"); ns != nil {
						st = ns
						stack = nil
					}
				}
				if !c08Check(r, st, fmt.Sprintf("block %d tx %d op %d", b, tx, i)) {
					return
				}
			}
			if c.Chance("intermediate-root", 1, 4) {
				st.IntermediateRoot(true) // miner/worker.go:317, block_validator.go:103
				r.Logf("IntermediateRoot (end of block %d tx %d)", b, tx)
				r.FP("iroot")
			} else {
				st.Finalise(true) // state_processor.go:144
				r.Logf("Finalise (end of block %d tx %d)", b, tx)
				r.FP("finalise")
			}
			if !c08Check(r, st, fmt.Sprintf("block %d tx %d end", b, tx)) {
				return
			}
		}
		// EndBlock phase of the staking module: no snapshots, not reverted
		nEnd := c.Intn("endops", 7)
		for i := 0; i < nEnd; i++ {
			r.Steps++
			tok := m.Run(m.GenEndBlock(st), st)
			r.FP(tok)
			c08Probes(r, tok)
			if !c08Check(r, st, fmt.Sprintf("block %d endblock op %d", b, i)) {
				return
			}
		}
		if c.Chance("get-validators", 1, 3) {
			// distributeRewards before YouV5 walks GetValidators().List() on the state it mutates
			// (staking/endblock.go:304); the list must be the current records
			c08SortedList(r, st, fmt.Sprintf("block %d EndBlock", b))
		}
		before := loadable(st)
		st.IntermediateRoot(true) // consensus/ucon/consensus.go:798 (FinalizeAndAssemble), block_validator.go:103
		r.Logf("IntermediateRoot (end of block %d)", b)
		r.FP("block-iroot")
		after := loadable(st)
		for a := range before {
			if !after[a] {
				r.Probe("zero-token-validator-deleted")
			}
		}
		if !c08Check(r, st, fmt.Sprintf("block %d after IntermediateRoot", b)) {
			return
		}
		switch c.Weighted("continue", []int{3, 4, 4, 2}) {
		case 0:
			// same object goes on (verifyAllSideChainBlocks processes several blocks on one StateDB)
			r.FP("same-object")
		case 1:
			ns := c08CommitReopen(r, env, st, false)
			if ns == nil {
				return
			}
			st = ns
		case 2:
			ns := c08CommitReopen(r, env, st, true)
			if ns == nil {
				return
			}
			st = ns
		case 3:
			if ns := c08CopySwitch(r, st, "block boundary"); ns != nil {
				st = ns
			}
		}
		env.St = st
	}
}

func c08Probes(r *kit.Run, tok string) {
	switch {
	case strings.HasPrefix(tok, "deleg/flag=3"):
		r.Probe("delegation-removed")
	case strings.HasPrefix(tok, "deleg/flag=1"):
		r.Probe("delegation-created")
	case strings.HasPrefix(tok, "createval/created"):
		r.Probe("validator-created")
	case strings.HasPrefix(tok, "penalty/applied"):
		r.Probe("penalty-applied")
	case strings.HasSuffix(tok, "/ok-zero-token"):
		r.Probe("validator-token-reached-zero")
	}
}

// c08CopySwitch imitates blockchain.go:716 / miner/worker.go:519 (a Copy that is used afterwards)
// and returns the copy to continue on, or nil when the copy is unusable (already reported).
func c08CopySwitch(r *kit.Run, st *state.StateDB, where string) *state.StateDB {
	cp := st.Copy()
	r.Fault("copy-switch")
	r.Logf("Copy (%s): continue on the copy", where)
	r.FP("copy-switch")
	if !c08Check(r, cp, "copy taken at "+where) {
		// the copy cannot even be read; go on with the original so that the run still explores
		r.Logf("copy dropped, continuing on the original")
		return nil
	}
	return cp
}

// c08CommitReopen commits as WriteBlockWithState does and reopens from the roots, on the same
// Database or after a restart on durable data only.
func c08CommitReopen(r *kit.Run, env *Env, st *state.StateDB, restart bool) *state.StateDB {
	c := r.C
	live := Obs{}
	observeValidators(st, live)
	root, vroot, sroot, err := st.Commit(true)
	if err != nil {
		r.Report("commit-error", "Commit: %v", err)
		return nil
	}
	r.Logf("Commit -> %s %s %s", nm(root), nm(vroot), nm(sroot))
	tdb := env.DB.TrieDB()
	if c.Chance("cap", 1, 3) {
		limit := []int{0, 512, 2048, 8192}[c.Intn("cap-limit", 4)]
		l0 := env.Disk.LogLen()
		if err := tdb.Cap(common.StorageSize(limit)); err != nil {
			r.Report("commit-error", "Cap: %v", err)
			return nil
		}
		if env.Disk.LogLen() > l0 {
			r.Fault("cap-flush")
		}
		r.Logf("TrieDB.Cap(%d)", limit)
	}
	for _, i := range c.Perm("root-order", 3) { // blockchain.go:810 ranges over a map
		if err := tdb.Commit([]common.Hash{root, vroot, sroot}[i], false); err != nil {
			r.Report("commit-error", "TrieDB.Commit: %v", err)
			return nil
		}
	}
	db := env.DB
	if restart {
		env.Disk = env.Disk.Restart()
		env.DB = state.NewDatabase(env.Disk)
		db = env.DB
		r.Fault("restart")
		r.FP("restart")
		r.Logf("RESTART: fresh state.Database over the durable image")
	} else {
		r.FP("reopen")
		r.Logf("reopen on the same Database")
	}
	ns, err := state.New(root, vroot, sroot, db)
	if err != nil {
		r.Report("reopen-error", "state.New after commit (restart=%v): %v", restart, err)
		return nil
	}
	re := Obs{}
	observeValidators(ns, re)
	if d := Diff(live, re); len(d) > 0 {
		r.Report("reload-mismatch:"+mainCategory(d), "validator-side observation differs after commit + reopen (restart=%v):%s", restart, describeDiff(live, re, d))
	}
	if !c08Check(r, ns, fmt.Sprintf("reopened state (restart=%v)", restart)) {
		return nil
	}
	// the consensus read path: a validator reader on the validator root
	rd, err := state.NewVldReader(vroot, db, true)
	if err != nil {
		r.Report("reopen-error", "NewVldReader(%s): %v", nm(vroot), err)
		return nil
	}
	c08Reader(r, rd, live)
	return ns
}

type agg struct {
	onStake, onTok, offStake, offTok *big.Int
	on, off                          uint64
}

func newAgg() *agg {
	return &agg{onStake: new(big.Int), onTok: new(big.Int), offStake: new(big.Int), offTok: new(big.Int)}
}

func (a *agg) add(v *state.Validator) {
	if v.Status == params.ValidatorOnline {
		a.onStake.Add(a.onStake, v.Stake)
		a.onTok.Add(a.onTok, v.Token)
		a.on++
	} else {
		a.offStake.Add(a.offStake, v.Stake)
		a.offTok.Add(a.offTok, v.Token)
		a.off++
	}
}

func (a *agg) String() string {
	return fmt.Sprintf("online(stake=%s token=%s n=%d) offline(stake=%s token=%s n=%d)", a.onStake, a.onTok, a.on, a.offStake, a.offTok, a.off)
}

func statStr(s *state.ValKindStat) string {
	return fmt.Sprintf("online(stake=%s token=%s n=%d) offline(stake=%s token=%s n=%d)", s.GetOnlineStake(), s.GetOnlineToken(), s.GetCount(), s.GetOfflineStake(), s.GetOfflineToken(), s.GetOfflineCount())
}

var allRoles = []params.ValidatorRole{params.RoleChancellor, params.RoleSenator, params.RoleHouse}
var allKinds = []params.ValidatorKind{params.KindValidator, params.KindChamber, params.KindHouse}

// recompute sums the records the way the statistics are defined (validator.go:646: per role,
// per kind of the role, and the grand total under KindValidator).
func recompute(recs []*state.Validator) (map[params.ValidatorRole]*agg, map[params.ValidatorKind]*agg) {
	roles := map[params.ValidatorRole]*agg{}
	kinds := map[params.ValidatorKind]*agg{}
	for _, ro := range allRoles {
		roles[ro] = newAgg()
	}
	for _, k := range allKinds {
		kinds[k] = newAgg()
	}
	for _, v := range recs {
		if a := roles[v.Role]; a != nil {
			a.add(v)
		}
		if k, ok := params.KindOfRole(v.Role); ok {
			kinds[k].add(v)
		}
		kinds[params.KindValidator].add(v)
	}
	return roles, kinds
}

func compareStat(stat *state.ValidatorsStat, recs []*state.Validator) string {
	roles, kinds := recompute(recs)
	var bad []string
	for _, ro := range allRoles {
		if got, want := statStr(stat.GetByRole(ro)), roles[ro].String(); got != want {
			bad = append(bad, fmt.Sprintf("role %d: stat %s, records %s", ro, got, want))
		}
	}
	for _, k := range allKinds {
		if got, want := statStr(stat.GetByKind(k)), kinds[k].String(); got != want {
			bad = append(bad, fmt.Sprintf("kind %d: stat %s, records %s", k, got, want))
		}
	}
	return strings.Join(bad, "; ")
}

// loadable returns the set of validators that can be loaded by address.
func loadable(st *state.StateDB) map[common.Address]bool {
	out := map[common.Address]bool{}
	for _, k := range valKeys {
		if st.GetValidatorByMainAddr(k.addr) != nil {
			out[k.addr] = true
		}
	}
	return out
}

func namesOf(set map[common.Address]bool) string {
	var s []string
	for a := range set {
		s = append(s, nm(a))
	}
	sort.Strings(s)
	return strings.Join(s, ",")
}

// guard runs f and turns a panic inside the code under test into a violation of class cls.
func guard(r *kit.Run, cls, where string, f func()) (ok bool) {
	defer func() {
		if v := recover(); v != nil {
			r.Report(cls, "%s: panic: %v", where, v)
			ok = false
		}
	}()
	f()
	return true
}

// c08Check evaluates the four clauses on st. It returns false when the state cannot be read
// at all (the run cannot go on with it).
func c08Check(r *kit.Run, st *state.StateDB, where string) bool {
	// the records: every validator that can be loaded by its address
	var recs []*state.Validator
	recSet := map[common.Address]bool{}
	if !guard(r, "validator-load-panic", where, func() {
		for _, k := range valKeys {
			if v := st.GetValidatorByMainAddr(k.addr); v != nil {
				recs = append(recs, v)
				recSet[k.addr] = true
			}
		}
	}) {
		return false
	}
	// (2) the index
	var listed []*state.Validator
	if !guard(r, "index-lists-unloadable-validator", where, func() { listed = st.GetValidatorsForUpdate() }) {
		return false
	}
	idxSet := map[common.Address]bool{}
	for i, v := range listed {
		if v == nil {
			// GetValidatorsForUpdate compares an interface holding a nil *Validator with nil, so
			// its "validator … not exist" panic never fires and callers get a nil entry
			r.Report("index-lists-unloadable-validator", "%s: GetValidatorsForUpdate()[%d] is nil: the index names a validator that cannot be loaded (loadable: [%s])", where, i, namesOf(recSet))
			return false
		}
		if idxSet[v.MainAddress()] {
			r.Report("index-mismatch", "%s: %s listed twice", where, nm(v.MainAddress()))
		}
		idxSet[v.MainAddress()] = true
	}
	if namesOf(idxSet) != namesOf(recSet) {
		r.Report("index-mismatch", "%s: GetValidatorsForUpdate lists [%s] but loadable by address are [%s]", where, namesOf(idxSet), namesOf(recSet))
	}
	// (1) statistics
	stat, err := st.GetValidatorsStat()
	if err != nil || stat == nil {
		r.Report("stat-unreadable", "%s: GetValidatorsStat: %v", where, err)
		return false
	}
	if bad := compareStat(stat, recs); bad != "" {
		r.Report("stat-mismatch", "%s: %s", where, bad)
	}
	// (4) per-validator sums
	for _, v := range recs {
		if bad := valSums(v); bad != "" {
			r.Report("validator-sum-mismatch", "%s: %s: %s", where, nm(v.MainAddress()), bad)
		}
	}
	// (3) delegation links
	ok := true
	for _, d := range delegators {
		want := map[common.Address]bool{}
		for _, v := range recs {
			if v.Delegations.Exist(d) {
				want[v.MainAddress()] = true
			}
		}
		if !guard(r, "delegation-link-panic", where+" delegator "+nm(d), func() {
			got := map[common.Address]bool{}
			dtos, err := st.GetDelegationsFrom(d)
			if err != nil {
				r.Report("delegation-link-mismatch", "%s: GetDelegationsFrom(%s): %v (validators holding an entry: [%s])", where, nm(d), err, namesOf(want))
				return
			}
			for _, dt := range dtos {
				got[dt.Validator] = true
			}
			n := st.GetCountOfDelegateTo(d)
			if namesOf(got) != namesOf(want) || n != len(want) {
				r.Report("delegation-link-mismatch", "%s: account %s lists [%s] (count %d) but the validators holding an entry for it are [%s]", where, nm(d), namesOf(got), n, namesOf(want))
			}
		}) {
			ok = false
		}
	}
	return ok
}

// c08SortedList compares GetValidators() (documented as a cached, read-only view) with the
// records loadable by address.
func c08SortedList(r *kit.Run, st *state.StateDB, where string) {
	guard(r, "validator-load-panic", where, func() {
		want := map[string]string{}
		for _, k := range valKeys {
			if v := st.GetValidatorByMainAddr(k.addr); v != nil {
				want[nm(k.addr)] = fmt.Sprintf("tok=%s stake=%s status=%d role=%d", v.Token, v.Stake, v.Status, v.Role)
			}
		}
		got := map[string]string{}
		for _, v := range st.GetValidators().List() {
			got[nm(v.MainAddress())] = fmt.Sprintf("tok=%s stake=%s status=%d role=%d", v.Token, v.Stake, v.Status, v.Role)
		}
		if d := Diff(Obs(want), Obs(got)); len(d) > 0 {
			// Diagnostic only: GetValidators() caches its result on the object and the cache is
			// never invalidated (statedb_val.go GetValidators). Consensus reads validator sets
			// through fresh readers (GetVldReader per root), and C08's statement is about the
			// statistics, the index and the delegation links, not about this cache, so a stale
			// cache on a mutated object is counted, not reported.
			r.Probe("getvalidators-cache-stale-on-mutated-object")
			_ = describeDiff
		}
		r.Probe("getvalidators-on-live-object")
	})
}

func valSums(v *state.Validator) string {
	var bad []string
	tok, stk := new(big.Int).Set(v.SelfToken), new(big.Int).Set(v.SelfStake)
	if params.YOUToStake(v.SelfToken).Cmp(v.SelfStake) != 0 {
		bad = append(bad, fmt.Sprintf("SelfStake %s != SelfToken %s / StakeUint", v.SelfStake, v.SelfToken))
	}
	for i, d := range v.Delegations {
		if d == nil {
			bad = append(bad, fmt.Sprintf("Delegations[%d] is nil", i))
			continue
		}
		tok.Add(tok, d.Token)
		stk.Add(stk, d.Stake)
		if params.YOUToStake(d.Token).Cmp(d.Stake) != 0 {
			bad = append(bad, fmt.Sprintf("delegation of %s: Stake %s != Token %s / StakeUint", nm(d.Delegator), d.Stake, d.Token))
		}
		if i > 0 && v.Delegations[i-1] != nil && v.Delegations[i-1].Delegator.Big().Cmp(d.Delegator.Big()) >= 0 {
			bad = append(bad, fmt.Sprintf("Delegations not strictly sorted at %d", i))
		}
	}
	if tok.Cmp(v.Token) != 0 {
		bad = append(bad, fmt.Sprintf("Token %s != SelfToken + sum(Delegations.Token) = %s", v.Token, tok))
	}
	if stk.Cmp(v.Stake) != 0 {
		bad = append(bad, fmt.Sprintf("Stake %s != SelfStake + sum(Delegations.Stake) = %s", v.Stake, stk))
	}
	return strings.Join(bad, "; ")
}

// c08Reader checks what consensus reads (sortition_verifier.go:97, ucon_validators.go:120-132):
// a ValidatorReader opened on the committed validator root.
func c08Reader(r *kit.Run, rd state.ValidatorReader, live Obs) {
	guard(r, "validator-reader-panic", "NewVldReader", func() {
		list := rd.GetValidators().List()
		stat, err := rd.GetValidatorsStat()
		if err != nil {
			r.Report("stat-unreadable", "validator reader: %v", err)
			return
		}
		if bad := compareStat(stat, list); bad != "" {
			r.Report("stat-mismatch", "validator reader on the committed root: %s", bad)
		}
		var names []string
		for _, v := range list {
			names = append(names, nm(v.MainAddress()))
		}
		sort.Strings(names)
		var want []string
		if live["index/list"] != "" {
			want = strings.Split(live["index/list"], ",")
		}
		sort.Strings(want)
		if strings.Join(names, ",") != strings.Join(want, ",") {
			r.Report("index-mismatch", "validator reader on the committed root lists [%s], the live object listed [%s]", strings.Join(names, ","), strings.Join(want, ","))
		}
	})
}

var _ = simdisk.New
