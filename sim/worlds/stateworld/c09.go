package stateworld

import (
	"fmt"
	"math/big"
	"time"

	"verifsim/kit"

	"github.com/youchainhq/go-youchain/common"
	"github.com/youchainhq/go-youchain/core/state"
)

func init() {
	kit.Register(&kit.Check{
		Prop: "C09", Name: "state", World: "STATE", Level: "fault_enumeration",
		Rule: "one run = a seeded block sequence on a real StateDB over the simulated disk: per transaction a seeded mix of account mutations " +
			"(balance/nonce/code/storage/suicide/create/log/refund/preimage) and validator mutations (create, PartialCopy+UpdateValidator, in-place update, " +
			"UpdateDelegation, withdraw-queue add/remove) with nested Snapshot()s; the injected fault is the abort: RevertToSnapshot to a seeded live id at a seeded " +
			"operation index, in the 1st..n-th transaction of a block (i.e. after earlier Finalise/IntermediateRoot on the same object), optionally after Commit and " +
			"reopen from disk. Oracle: full observation (all getters for a fixed address universe, logs, refund, preimages, validators, stats, index, withdraw queue, " +
			"the three roots and a trie-level dump computed on a Copy) taken at Snapshot must equal the observation after RevertToSnapshot; a valid id never panics. " +
			"A run is non-trivial when at least one revert (abort) fired.",
		Real: []string{"core/state (StateDB, journal, validators, withdraw queue)", "core/state.Database", "trie.Database", "trie"},
		Stub: []string{"callers of StateDB (operation patterns copied from staking/*.go and core/vm call sites)"},
		FaultsNotInjected: []string{"staking-record writes (AddStakingRecord/AddPendingRelationship) between Snapshot and Revert: not journalled by design and never reverted across in production (staking handlers fail before writing them); exercised outside snapshot windows only",
			"RemoveValidator: exported but has no production caller"},
		QuickBudget: 40 * time.Second, ThoroughBudget: 12 * time.Minute,
		MinRuns:        50,
		Exec:           runC09,
		ExpectedProbes: []string{"revert-after-earlier-finalise", "revert-skipping-inner-snapshots", "inner-revert-with-outer-live", "continued-on-reopened-state", "contract-focus-run", "staking-focus-run"},
		PanicClass:     kit.PanicInRepo("state-panic"),
	})
}

type snap struct {
	id  int
	obs Obs
}

func runC09(r *kit.Run) {
	c := r.C
	env := newEnv()
	m := &Mutator{r: r, ValidatorWeight: c.Intn("valweight", 3)}
	st := env.St
	mode := c.Weighted("focus", []int{2, 3, 2}) // 0 = uniform mix, 1 = contract focus, 2 = staking focus
	if mode == 2 {
		// swarm: validator-side mutations dominate, delegations most of all, from one or two
		// delegators (their lists of validators grow, shrink and grow again within a run)
		m.ValidatorWeight = 3 + c.Intn("valweight-focus", 3)
		m.DelegationWeight = 2 + c.Intn("delegation-weight", 3)
		m.NDelegators = 1 + c.Intn("ndelegators", 2)
		r.Logf("staking-focus: valweight=%d delegation-weight=%d delegators=%d", m.ValidatorWeight, m.DelegationWeight, m.NDelegators)
		r.Probe("staking-focus-run")
	}
	if mode == 1 {
		// swarm: half of the runs concentrate on a few deployed contracts and slots
		m.Hot = []common.Address{accounts[0], accounts[1]}
		m.HotSlots = 1 + c.Intn("hot-slots", 2)
		m.StorageWeight = 2 + c.Intn("storage-weight", 4)
		for i, a := range m.Hot {
			// deployment as evm.create does it (evm.go:338-380), in a block of its own
			st.CreateAccount(a)
			st.SetNonce(a, 1)
			st.SetCode(a, codes[1+i])
			if c.Chance("prefill-storage", 1, 2) {
				st.SetState(a, common.BigToHash(big.NewInt(0)), common.BigToHash(big.NewInt(int64(1+c.Intn("base", 2)))))
			}
		}
		root, vroot, sroot, err := st.Commit(true)
		if err != nil {
			r.Report("commit-error", "Commit of the deployment block: %v", err)
			return
		}
		if c.Chance("reopen-after-deploy", 1, 2) {
			for _, h := range []common.Hash{root, vroot, sroot} {
				env.DB.TrieDB().Commit(h, false)
			}
			ns, err := state.New(root, vroot, sroot, env.DB)
			if err != nil {
				r.Report("reopen-error", "state.New after deployment: %v", err)
				return
			}
			st, env.St = ns, ns
		}
		r.Logf("contract-focus: hot=%s,%s slots=%d storage-weight=%d", nm(m.Hot[0]), nm(m.Hot[1]), m.HotSlots, m.StorageWeight)
		r.Probe("contract-focus-run")
	}
	nBlocks := 1 + c.Intn("blocks", 3)
	for b := 0; b < nBlocks; b++ {
		m.height = uint64(b + 1)
		bhash := common.BigToHash(big.NewInt(int64(1000 + b)))
		nTx := 1 + c.Intn("txs", 4)
		for tx := 0; tx < nTx; tx++ {
			st.Prepare(common.BigToHash(big.NewInt(int64(b*100+tx+1))), bhash, tx)
			// staking records are written outside snapshot windows only (see FaultsNotInjected)
			if c.Chance("stakerec", 1, 6) {
				m.stakingRecord(st)
			}
			var stack []snap
			nOps := 1 + c.Intn("ops", 14)
			for i := 0; i < nOps; i++ {
				r.Steps++
				switch c.Weighted("action", []int{10, 4, 4}) {
				case 0:
					r.FP(m.Step(st))
				case 1:
					if len(stack) >= 8 {
						continue
					}
					id := st.Snapshot()
					stack = append(stack, snap{id: id, obs: Observe(st)})
					r.Logf("Snapshot -> %d (depth %d, block %d tx %d)", id, len(stack), b, tx)
					r.FP("snap")
				case 2:
					if len(stack) == 0 {
						continue
					}
					// 0 = innermost
					j := len(stack) - 1 - c.Intn("revert-to", len(stack))
					s := stack[j]
					r.Fault("abort.revert")
					if tx > 0 || b > 0 {
						r.Probe("revert-after-earlier-finalise")
					}
					if j < len(stack)-1 {
						r.Probe("revert-skipping-inner-snapshots")
					}
					if j == len(stack)-1 && len(stack) > 1 {
						r.Probe("inner-revert-with-outer-live")
					}
					r.Logf("RevertToSnapshot %d (stack pos %d of %d)", s.id, j, len(stack))
					if !revertNoPanic(r, st, s.id, b, tx, len(stack)-j) {
						return
					}
					now := Observe(st)
					if d := Diff(s.obs, now); len(d) > 0 {
						r.Report("revert-mismatch:"+mainCategory(d), "after RevertToSnapshot(%d) in block %d tx %d:%s", s.id, b, tx, describeDiff(s.obs, now, d))
						return
					}
					stack = stack[:j]
					r.FP(fmt.Sprintf("revert%d", len(stack)))
				}
			}
			if c.Chance("intermediate-root", 1, 2) {
				st.IntermediateRoot(true)
				r.Logf("IntermediateRoot (end of block %d tx %d)", b, tx)
				r.FP("iroot")
			} else {
				st.Finalise(true)
				r.Logf("Finalise (end of block %d tx %d)", b, tx)
				r.FP("finalise")
			}
		}
		if c.Chance("commit", 1, 2) {
			root, vroot, sroot, err := st.Commit(true)
			if err != nil {
				r.Report("commit-error", "Commit: %v", err)
				return
			}
			r.FP("commit")
			r.Logf("Commit block %d -> %s %s %s", b, nm(root), nm(vroot), nm(sroot))
			if c.Chance("reopen", 1, 2) {
				tdb := env.DB.TrieDB()
				for _, h := range []common.Hash{root, vroot, sroot} {
					if err := tdb.Commit(h, false); err != nil {
						r.Report("commit-error", "TrieDB.Commit: %v", err)
						return
					}
				}
				ns, err := state.New(root, vroot, sroot, env.DB)
				if err != nil {
					r.Report("reopen-error", "state.New after commit: %v", err)
					return
				}
				st = ns
				env.St = ns
				r.FP("reopen")
				r.Logf("TrieDB.Commit + reopen from roots")
				r.Probe("continued-on-reopened-state")
			}
		}
	}
}

func revertNoPanic(r *kit.Run, st *state.StateDB, id, b, tx, depth int) (ok bool) {
	defer func() {
		if v := recover(); v != nil {
			r.Report("revert-panic", "RevertToSnapshot(%d) of a live snapshot panicked in block %d tx %d (%d snapshots from the top): %v", id, b, tx, depth, v)
			ok = false
		}
	}()
	st.RevertToSnapshot(id)
	return true
}
