// Package stateworld is the STATE world: the real core/state package (StateDB, journals,
// validators, withdraw queue, staking records) over state.Database / trie.Database on the
// simulated disk. It serves C08, C09 and C10. There are no goroutines and no clock here; the
// "faults" are aborts (revert at arbitrary points), restarts on durable data only, flush-size
// knobs and copy points.
package stateworld

import (
	"crypto/ecdsa"
	"crypto/sha256"
	"encoding/json"
	"fmt"
	"math/big"
	"os"
	"sort"
	"strings"

	"verifsim/kit"
	"verifsim/simdisk"

	"github.com/youchainhq/go-youchain/common"
	"github.com/youchainhq/go-youchain/core/state"
	"github.com/youchainhq/go-youchain/core/types"
	"github.com/youchainhq/go-youchain/crypto"
	"github.com/youchainhq/go-youchain/logging"
	"github.com/youchainhq/go-youchain/params"
	"github.com/youchainhq/go-youchain/rlp"
	"github.com/youchainhq/go-youchain/trie"
)

func init() {
	// the code under test logs profusely (RawDump warns on every call); logging is not an
	// observable of any property.
	logging.Root().SetHandler(logging.DiscardHandler())
}

const (
	nAccounts   = 6
	nValKeys    = 8
	nDelegators = 3
	nSlots      = 4
)

type valKey struct {
	priv *ecdsa.PrivateKey
	pub  []byte // compressed
	addr common.Address
	bls  []byte
}

var (
	accounts   []common.Address // plain accounts (some act as contracts)
	delegators []common.Address
	valKeys    []valKey
	ripemd     = common.HexToAddress("0000000000000000000000000000000000000003")
	universe   []common.Address // every address observations look at
	codes      = [][]byte{nil, {0x60, 0x00}, {0x60, 0x01, 0x60, 0x02, 0x01}, []byte("a-longer-piece-of-contract-code-to-store-0123456789")}
)

func init() {
	for i := 0; i < nAccounts; i++ {
		accounts = append(accounts, common.BytesToAddress([]byte{0xa0, byte(i + 1)}))
	}
	for i := 0; i < nDelegators; i++ {
		delegators = append(delegators, common.BytesToAddress([]byte{0xd0, byte(i + 1)}))
	}
	for i := 0; i < nValKeys; i++ {
		d := make([]byte, 32)
		d[31] = byte(i + 1)
		d[0] = 0x11
		priv, err := crypto.ToECDSA(d)
		if err != nil {
			panic(err)
		}
		pub := crypto.CompressPubkey(&priv.PublicKey)
		bls := make([]byte, 128)
		for j := range bls {
			bls[j] = byte(i*7 + j)
		}
		valKeys = append(valKeys, valKey{priv: priv, pub: pub, addr: crypto.PubkeyToAddress(priv.PublicKey), bls: bls})
	}
	universe = append(universe, accounts...)
	universe = append(universe, delegators...)
	// The RIPEMD precompile address 0x03 is deliberately NOT in the universe: stateObject.touch
	// keeps it dirty across reverts on purpose (journal.dirty, "ugly hack to handle the RIPEMD
	// precompile consensus exception" inherited from go-ethereum), so a revert after touching
	// it is not meant to be pure. Checking it would flag intended behaviour.
}

// Env is one state under test with its storage stack.
type Env struct {
	Disk *simdisk.Disk
	DB   state.Database
	St   *state.StateDB
}

func newEnv() *Env {
	d := simdisk.New()
	db := state.NewDatabase(d)
	st, err := state.New(common.Hash{}, common.Hash{}, common.Hash{}, db)
	if err != nil {
		panic(err)
	}
	return &Env{Disk: d, DB: db, St: st}
}

// observed is the universe plus the penalty account (only written by the EndBlock penalty
// operation, never picked by the account generators).
func observed() []common.Address {
	return append(append([]common.Address(nil), universe...), penaltyTo)
}

// blobStr prints short blobs in hex and long ones (the 24 KiB codes of C10) as length + digest.
func blobStr(b []byte) string {
	if len(b) <= 64 {
		return fmt.Sprintf("%x", b)
	}
	h := sha256.Sum256(b)
	return fmt.Sprintf("len=%d sha256=%x", len(b), h[:8])
}

// Obs is a full observation of a state: key → printable value.
type Obs map[string]string

func bigStr(b *big.Int) string {
	if b == nil {
		return "<nil>"
	}
	return b.String()
}

// observeLive reads everything the exported getters expose (does not compute roots).
func observeLive(st *state.StateDB, o Obs) {
	for _, a := range observed() {
		p := "acct/" + nm(a) + "/"
		o[p+"exist"] = fmt.Sprint(st.Exist(a))
		o[p+"empty"] = fmt.Sprint(st.Empty(a))
		o[p+"balance"] = bigStr(st.GetBalance(a))
		o[p+"nonce"] = fmt.Sprint(st.GetNonce(a))
		o[p+"codehash"] = st.GetCodeHash(a).Hex()
		o[p+"code"] = blobStr(st.GetCode(a))
		o[p+"codesize"] = fmt.Sprint(st.GetCodeSize(a))
		o[p+"suicided"] = fmt.Sprint(st.HasSuicided(a))
		o[p+"ndelegations"] = fmt.Sprint(st.GetCountOfDelegateTo(a))
		// the delegator's own list of validators (kept beside the account, addressed by
		// DelegationsHash) as the staking module reads it
		if dtos, err := st.GetDelegationsFrom(a); err != nil {
			o[p+"delegations"] = "error: " + err.Error()
		} else {
			var ds []string
			for _, d := range dtos {
				ds = append(ds, fmt.Sprintf("%s:%s/%s", nm(d.Validator), bigStr(d.Token), bigStr(d.Stake)))
			}
			o[p+"delegations"] = strings.Join(ds, ",")
		}
		for s := 0; s < nSlots; s++ {
			k := common.BigToHash(big.NewInt(int64(s)))
			o[fmt.Sprintf("%sstate%d", p, s)] = st.GetState(a, k).Hex()
			o[fmt.Sprintf("%scommitted%d", p, s)] = st.GetCommittedState(a, k).Hex()
		}
	}
	// logs (the accessor iterates a map; sort)
	var logs []string
	for _, l := range st.Logs() {
		logs = append(logs, fmt.Sprintf("%s#%d addr=%s topics=%v data=%x txidx=%d bh=%s", nm(l.TxHash), l.Index, nm(l.Address), l.Topics, l.Data, l.TxIndex, nm(l.BlockHash)))
	}
	sort.Strings(logs)
	o["log/all"] = strings.Join(logs, ";")
	o["refund/value"] = fmt.Sprint(st.GetRefund())
	var pre []string
	for h, p := range st.Preimages() {
		pre = append(pre, fmt.Sprintf("%s=%x", nm(h), p))
	}
	sort.Strings(pre)
	o["preimage/all"] = strings.Join(pre, ";")
	observeValidators(st, o)
}

func observeValidators(st *state.StateDB, o Obs) {
	func() {
		defer func() {
			if v := recover(); v != nil {
				o["val/PANIC"] = fmt.Sprint(v)
			}
		}()
		vals := st.GetValidatorsForUpdate()
		var idx []string
		for _, v := range vals {
			d := v.Dump()
			b, _ := json.Marshal(d)
			o["val/"+nm(v.MainAddress())] = string(b)
			idx = append(idx, nm(v.MainAddress()))
		}
		o["index/list"] = strings.Join(idx, ",")
	}()
	if stat, err := st.GetValidatorsStat(); err == nil && stat != nil {
		d := stat.Dump()
		for k, it := range d.Kinds {
			b, _ := json.Marshal(it)
			o[fmt.Sprintf("stat/kind%d", k)] = string(b)
		}
		for r, it := range d.Roles {
			b, _ := json.Marshal(it)
			o[fmt.Sprintf("stat/role%d", r)] = string(b)
		}
	} else {
		o["stat/err"] = fmt.Sprint(err)
	}
	if q := st.GetWithdrawQueue(); q != nil {
		var recs []string
		for _, r := range q.Records {
			b, _ := json.Marshal(r.Dump())
			recs = append(recs, string(b))
		}
		o["queue/records"] = strings.Join(recs, ";")
	}
}

// observeRoots computes the three roots and a full trie-level dump on a Copy, so that
// observing does not finalise the object under observation.
func observeRoots(st *state.StateDB, o Obs) {
	cp := st.Copy()
	// the index the next log would get (StateDB.logSize is visible only through it): added on
	// the throw-away copy, logs do not enter any root
	cp.AddLog(&types.Log{Address: logProbeAddr})
	for _, l := range cp.Logs() {
		if l.Address == logProbeAddr {
			o["log/next-index"] = fmt.Sprint(l.Index)
		}
	}
	// Commit (not just IntermediateRoot) on the copy: RawDump reads delegation blobs, which
	// only Commit inserts into the node database. The node database is content-addressed, so
	// the extra (unreferenced) nodes cannot change what any root resolves to.
	r1, r2, r3, err := cp.Commit(true)
	if err != nil {
		o["root/commit-error"] = err.Error()
	}
	o["root/state"] = r1.Hex()
	o["root/val"] = r2.Hex()
	o["root/staking"] = r3.Hex()
	// leaves only: whether code/delegation blobs and storage nodes of the *copy* reached the
	// node database is Copy/Commit behaviour (C10), not revert behaviour.
	dumpInto(st.Database(), r1, r2, r3, o, "trie/", false)
}

// dumpInto writes the raw trie-level content reachable from the three roots into o: every
// leaf of the account, validator and staking tries (hashed key -> value bytes), every storage
// trie leaf of every account, and the presence of code and delegation blobs. It opens the
// tries by root through the state.Database and uses nothing of StateDB, no preimages.
func dumpInto(db state.Database, r1, r2, r3 common.Hash, o Obs, prefix string, deref bool) {
	names := []string{"state", "val", "staking"}
	for i, root := range []common.Hash{r1, r2, r3} {
		t, err := db.OpenTrie(root)
		if err != nil {
			o[prefix+names[i]+"/OPEN-ERROR"] = err.Error()
			continue
		}
		it := trie.NewIterator(t.NodeIterator(nil))
		for it.Next() {
			o[fmt.Sprintf("%s%s/%x", prefix, names[i], it.Key)] = fmt.Sprintf("%x", it.Value)
			if i == 0 && deref {
				var acc state.Account
				if err := rlp.DecodeBytes(it.Value, &acc); err != nil {
					o[fmt.Sprintf("%sstate/%x/DECODE-ERROR", prefix, it.Key)] = err.Error()
					continue
				}
				if acc.Root != emptyRoot && acc.Root != (common.Hash{}) {
					stt, err := db.OpenStorageTrie(common.BytesToHash(it.Key), acc.Root)
					if err != nil {
						o[fmt.Sprintf("%sstorage/%x/OPEN-ERROR", prefix, it.Key)] = err.Error()
					} else {
						sit := trie.NewIterator(stt.NodeIterator(nil))
						for sit.Next() {
							o[fmt.Sprintf("%sstorage/%x/%x", prefix, it.Key, sit.Key)] = fmt.Sprintf("%x", sit.Value)
						}
						if sit.Err != nil {
							o[fmt.Sprintf("%sstorage/%x/ITER-ERROR", prefix, it.Key)] = sit.Err.Error()
						}
					}
				}
				if len(acc.CodeHash) > 0 && common.BytesToHash(acc.CodeHash) != emptyCodeHash {
					code, err := db.ContractCode(common.BytesToHash(it.Key), common.BytesToHash(acc.CodeHash))
					o[fmt.Sprintf("%scode/%x", prefix, it.Key)] = fmt.Sprintf("%s err=%v", blobStr(code), err)
				}
				if len(acc.DelegationsHash) > 0 {
					blob, err := db.DelegationBytes(common.BytesToHash(acc.DelegationsHash))
					o[fmt.Sprintf("%sdelegations/%x", prefix, it.Key)] = fmt.Sprintf("%x err=%v", blob, err)
				}
			}
		}
		if it.Err != nil {
			o[prefix+names[i]+"/ITER-ERROR"] = it.Err.Error()
		}
	}
}

var logProbeAddr = common.HexToAddress("0x00000000000000000000000000000000000010a9")

var (
	emptyRoot     = common.HexToHash("56e81f171bcc55a6ff8345e692c0f86e5b48e01b996cadc001622fb5e363b421")
	emptyCodeHash = crypto.Keccak256Hash(nil)
)

// Observe takes the full observation used by C09/C10.
func Observe(st *state.StateDB) Obs {
	o := Obs{}
	observeLive(st, o)
	if !debugNoCopy {
		observeRoots(st, o)
	}
	return o
}

// Diff returns the sorted keys on which two observations differ.
func Diff(a, b Obs) []string {
	seen := map[string]bool{}
	var out []string
	for k, v := range a {
		if w, ok := b[k]; !ok || w != v {
			if !seen[k] {
				seen[k] = true
				out = append(out, k)
			}
		}
	}
	for k := range b {
		if _, ok := a[k]; !ok && !seen[k] {
			seen[k] = true
			out = append(out, k)
		}
	}
	sort.Strings(out)
	return out
}

// category is the part of an observation key before the first '/': acct, log, refund,
// preimage, val, index, stat, queue, root, trie.
func category(key string) string {
	if i := strings.IndexByte(key, '/'); i > 0 {
		return key[:i]
	}
	return key
}

func describeDiff(a, b Obs, keys []string) string {
	var sb strings.Builder
	for i, k := range keys {
		if i >= 4 {
			fmt.Fprintf(&sb, " … (+%d more)", len(keys)-i)
			break
		}
		x, y := a[k], b[k]
		// show a window around the first difference
		i := 0
		for i < len(x) && i < len(y) && x[i] == y[i] {
			i++
		}
		from := i - 60
		if from < 0 {
			from = 0
		}
		if from > 0 {
			x, y = "…"+x[from:], "…"+y[from:]
		}
		fmt.Fprintf(&sb, " [%s: %q -> %q]", k, clip(x), clip(y))
	}
	return sb.String()
}

func clip(s string) string {
	if len(s) > 220 {
		return s[:220] + "…"
	}
	return s
}

var _ = types.Log{}
var _ = params.StakeUint
var _ = kit.Violation{}

// nm gives a short stable name for addresses and hashes in traces.
func nm(x interface{}) string {
	switch v := x.(type) {
	case common.Address:
		for i, a := range accounts {
			if a == v {
				return fmt.Sprintf("A%d", i+1)
			}
		}
		for i, a := range delegators {
			if a == v {
				return fmt.Sprintf("D%d", i+1)
			}
		}
		for i, k := range valKeys {
			if k.addr == v {
				return fmt.Sprintf("V%d", i+1)
			}
		}
		if v == ripemd {
			return "RIPEMD"
		}
		if v == penaltyTo {
			return "PENALTY"
		}
		return v.Hex()[2:10]
	case common.Hash:
		h := v.Hex()
		return h[len(h)-8:]
	}
	return fmt.Sprint(x)
}

// debugNoCopy (VERIF_DEBUG_NOCOPY=1) drops the Copy-based root observation; a debugging aid
// for telling revert behaviour from Copy behaviour. Never set by the registered checks.
var debugNoCopy = os.Getenv("VERIF_DEBUG_NOCOPY") == "1"

// mainCategory names the most specific category among differing keys (roots and the trie
// dump differ whenever anything else does, so they come last).
func mainCategory(keys []string) string {
	order := []string{"acct", "log", "refund", "preimage", "val", "index", "stat", "queue", "trie", "root"}
	present := map[string]bool{}
	for _, k := range keys {
		present[category(k)] = true
	}
	for _, c := range order {
		if present[c] {
			return c
		}
	}
	return category(keys[0])
}
