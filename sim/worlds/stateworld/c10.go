package stateworld

import (
	"fmt"
	"math/big"
	"strings"
	"time"

	"verifsim/kit"
	"verifsim/simdisk"

	"github.com/youchainhq/go-youchain/common"
	"github.com/youchainhq/go-youchain/core/state"
)

func init() {
	kit.Register(&kit.Check{
		Prop: "C10", Name: "state", World: "STATE", Level: "fault_enumeration",
		Rule: "one run = a recorded plan (blocks of transactions of concrete operations: account balance/nonce/code/storage/suicide/create, validator create/update/in-place update, UpdateDelegation, withdraw queue, " +
			"staking records, nested Snapshot/Revert, and per block an EndBlock segment with penalties, reward-pool edits, queue processing) executed on a real StateDB over the simulated disk; every block ends with " +
			"IntermediateRoot(true), then state.Commit(true) and TrieDB().Commit of the three roots in a seeded order as WriteBlockWithState does, optionally with TrieDB().Cap(seeded limit) in between (fault cap-flush; " +
			"a quarter of the runs use 24 KiB code blobs so that one TrieDB().Commit spans several disk batches). Oracles: (a) state.New on the same Database and (b) RESTART = a fresh state.Database over simdisk.Restart() " +
			"(durable data only): every getter (accounts incl. storage/code/delegation lists, validators, statistics incl. reward pools, index, withdraw queue, staking records, pending relationships) equals the live object after its " +
			"IntermediateRoot, and the raw trie-level dump (all leaves of the three tries, every storage trie, presence of every code and delegation blob) has no missing node and is the same through the live and the fresh Database. " +
			"FAULT ENUMERATION: for EVERY disk-write index k of the window [before state.Commit, after the last TrieDB().Commit) the image simdisk.Prefix(k) is opened with a fresh Database: the previously committed triple must " +
			"be fully readable with the identical dump, and each new root is either absent or fully readable with exactly the final dump (never a mixture). (c) one Copy() per run at a seeded point (mid-transaction, after " +
			"Finalise, after IntermediateRoot, after the block's IntermediateRoot, after Commit): all getters incl. logs/refund/preimages equal at copy time; then either 'different operations' (the original goes on: the copy's " +
			"observation must not move; the copy gets its own operations: the original's observation must not move; the copy is committed and must reload exactly from durable data) or 'same operations' (copies taken at " +
			"transaction boundaries replay the original's remaining operations in lockstep, commit first, must reload exactly, and must produce the same triple root as the original). (d) the recorded plan is rebuilt on a fresh " +
			"state over a fresh disk in a different grouping: Finalise<->IntermediateRoot switched, boundaries inserted or dropped (only where no self-destructed/empty account and no zero-token validator is waiting for deletion, " +
			"so that content cannot legitimately depend on it), different commit/reopen/restart points, ResetStakingTrie vs opening with an empty staking root, or — permutation — operations with disjoint footprints " +
			"reordered inside a transaction: the triple root after every block must be identical. A run is non-trivial when a crash point, restart, cap flush or copy fired.",
		Real: []string{"core/state (StateDB, state objects, journal, validators, statistics, withdraw queue, staking records, Copy, Commit)", "core/state.Database (cachingDB incl. its past-trie cache)", "trie.Database (Commit, Cap, Reference)", "trie"},
		Stub: []string{"callers of StateDB (operation patterns copied from core/vm, core/state_processor.go, staking/*.go, core/blockchain.go; each generator names its site)", "disk: simdisk (atomic Put / Batch.Write entries)"},
		FaultsNotInjected: []string{
			"torn writes inside one batch / lost-after-ack writes: the property states process crashes, the store is LevelDB without Sync (DESIGN 2.4)",
			"TrieDB().Dereference / garbage collection of roots: no production caller (every block's three roots are committed to disk immediately)",
			"commit-equivalence of a copy taken in the middle of a transaction against its original: the copy has no journal (documented on Copy), so accounts self-destructed or emptied earlier in the open transaction are not removed by the copy's Finalise — inherited from go-ethereum, and every production caller copies after IntermediateRoot; such copies are still checked for equality at copy time, independence and exact reload of their own commit",
			"continuing on a StateDB after Commit (production discards it); a Copy of a committed StateDB is continued instead",
		},
		Assumptions: []string{"crash model: the process dies between two disk writes; one Put or one Batch.Write is atomic"},
		QuickBudget: 40 * time.Second, ThoroughBudget: 12 * time.Minute,
		MinRuns:    50,
		Exec:       runC10,
		PanicClass: kit.PanicInRepo("state-panic"),
		// reach probes every batch is expected to hit (listed in the evidence as probes_never_hit otherwise)
		ExpectedProbes: []string{"commit-spans-more-than-3-disk-writes", "copy-checked-after-original-moved", "copy-of-copy", "copy-same-ops", "staking-record-focus-run", "copy@block-iroot", "copy@commit", "copy@finalise", "copy@iroot", "copy@mid-transaction", "crash-with-some-but-not-all-new-roots-on-disk", "rebuilt-permuted", "rebuilt-regrouped"},
	})
}

// ---- plan ----

type c10Seg struct {
	isEnd     bool // the EndBlock segment (after the last transaction)
	thash     common.Hash
	txi       int
	ops       []*Op
	safeAfter []bool // a boundary right after ops[i] cannot change content
	end       string // "finalise" | "iroot" | "block"
	endSafe   bool
}

type c10Block struct {
	height uint64
	bhash  common.Hash
	reset  bool // a new staking period starts: staking trie is reset
	segs   []*c10Seg
	roots  [3]common.Hash // main line, after the block's IntermediateRoot
}

type c10Committed struct {
	roots [3]common.Hash
	raw   Obs // raw dump read through a fresh Database over the durable image
}

type c10Run struct {
	r      *kit.Run
	m      *Mutator
	stacks map[*state.StateDB][]int
}

// apply performs one recorded step on st. who is "" for the main line (full trace line) and a
// short tag for followers/rebuilds.
func (x *c10Run) apply(st *state.StateDB, op *Op, who string) string {
	switch op.Ctl {
	case "snap":
		id := st.Snapshot()
		x.stacks[st] = append(x.stacks[st], id)
		x.r.Logf("%sSnapshot -> %d", who, id)
		return "snap"
	case "revert":
		s := x.stacks[st]
		if op.Arg >= len(s) {
			return "revert-none"
		}
		st.RevertToSnapshot(s[op.Arg])
		x.stacks[st] = s[:op.Arg]
		x.r.Logf("%sRevertToSnapshot %d", who, s[op.Arg])
		return "revert"
	}
	// Generators look at the validator list before every operation; do the same read on every
	// state that replays the plan, so that all of them issue the same sequence of calls.
	st.GetValidatorsForUpdate()
	return x.m.RunAs(who, op, st)
}

func (x *c10Run) boundary(st *state.StateDB, kind, who string) {
	switch kind {
	case "finalise":
		st.Finalise(true) // state_processor.go:144
	case "iroot":
		st.IntermediateRoot(true) // miner/worker.go:317, block_validator.go:103
	}
	x.stacks[st] = nil
	x.r.Logf("%s%s", who, kind)
}

// c10Safe: no account and no validator is waiting for a deletion that a Finalise /
// IntermediateRoot at this point would perform (so such a boundary cannot change content).
func c10Safe(st *state.StateDB) bool {
	for _, a := range observed() {
		if st.Exist(a) && (st.HasSuicided(a) || st.Empty(a)) {
			return false
		}
	}
	for _, k := range valKeys {
		if v := st.GetValidatorByMainAddr(k.addr); v != nil && v.IsInvalid() {
			return false
		}
	}
	return true
}

// ---- observations ----

// observeContent: everything the exported getters say about committed content.
func observeContent(st *state.StateDB, o Obs) {
	for _, a := range observed() {
		p := "acct/" + nm(a) + "/"
		o[p+"exist"] = fmt.Sprint(st.Exist(a))
		o[p+"empty"] = fmt.Sprint(st.Empty(a))
		o[p+"balance"] = bigStr(st.GetBalance(a))
		o[p+"nonce"] = fmt.Sprint(st.GetNonce(a))
		o[p+"codehash"] = st.GetCodeHash(a).Hex()
		o[p+"code"] = blobStr(st.GetCode(a))
		o[p+"codesize"] = fmt.Sprint(st.GetCodeSize(a))
		for s := 0; s < nSlots; s++ {
			k := common.BigToHash(big.NewInt(int64(s)))
			o[fmt.Sprintf("%sstate%d", p, s)] = st.GetState(a, k).Hex()
		}
	}
	for _, d := range delegators {
		p := "acct/" + nm(d) + "/"
		o[p+"ndelegations"] = fmt.Sprint(st.GetCountOfDelegateTo(d))
		dtos, err := st.GetDelegationsFrom(d)
		var l []string
		for _, dt := range dtos {
			l = append(l, fmt.Sprintf("%s:%s/%s", nm(dt.Validator), dt.Token, dt.Stake))
		}
		o[p+"delegations"] = fmt.Sprintf("%s err=%v", strings.Join(l, ","), err)
	}
	observeValidators(st, o)
	ds := append([]common.Address{{}}, delegators...)
	for _, k := range valKeys {
		o["srec/pendingcount/"+nm(k.addr)] = fmt.Sprint(st.ValidatorPendingCount(k.addr))
		o["srec/pendingval/"+nm(k.addr)] = fmt.Sprint(st.PendingValidatorExist(k.addr))
		for _, d := range ds {
			key := "srec/" + nm(d) + ">" + nm(k.addr)
			if rec := st.GetStakingRecord(d, k.addr); rec != nil {
				var hs []string
				for _, h := range rec.TxHashes {
					hs = append(hs, nm(h))
				}
				o[key] = fmt.Sprintf("%s [%s]", bigStr(rec.FinalValue), strings.Join(hs, ","))
			}
			if d != (common.Address{}) && st.PendingRelationshipExist(d, k.addr) {
				o[key+"/pending"] = "true"
			}
		}
	}
	for _, d := range delegators {
		o["srec/pendingcount/"+nm(d)] = fmt.Sprint(st.DelegatorPendingCount(d))
	}
	// st.Error() is not observed: GetCodeSize of any account without code memoizes the
	// database's "not found" for the empty code hash (inherited from go-ethereum), so the
	// value says nothing about content. Missing nodes are found by the raw dump instead.
}

// observeTxScoped: what a copy must also carry but a reload does not (logs, refund, preimages,
// self-destruct marks, committed-slot view).
func observeTxScoped(st *state.StateDB, o Obs) {
	full := Obs{}
	observeLive(st, full)
	for k, v := range full {
		switch category(k) {
		case "log", "refund", "preimage":
			o[k] = v
		case "acct":
			if strings.HasSuffix(k, "/suicided") || strings.Contains(k, "/committed") {
				o[k] = v
			}
		}
	}
}

func (x *c10Run) observe(st *state.StateDB, txScoped bool, cls, where string) (o Obs, ok bool) {
	o = Obs{}
	ok = guard(x.r, cls, where, func() {
		observeContent(st, o)
		if txScoped {
			observeTxScoped(st, o)
		}
	})
	return
}

func rawDump(db state.Database, roots [3]common.Hash) Obs {
	o := Obs{}
	dumpInto(db, roots[0], roots[1], roots[2], o, "trie/", true)
	return o
}

// rawPart restricts a raw dump to the keys belonging to trie i (0 state incl. storage, code and
// delegation blobs; 1 validators; 2 staking).
func rawPart(o Obs, i int) Obs {
	out := Obs{}
	for k, v := range o {
		var j int
		switch {
		case strings.HasPrefix(k, "trie/val/"):
			j = 1
		case strings.HasPrefix(k, "trie/staking/"):
			j = 2
		}
		if i == j {
			out[k] = v
		}
	}
	return out
}

// rawErrors lists what a raw dump could not read.
func rawErrors(o Obs) (keys []string) {
	for k, v := range o {
		if strings.Contains(k, "ERROR") || (strings.Contains(v, " err=") && !strings.HasSuffix(v, " err=<nil>")) {
			keys = append(keys, k)
		}
	}
	return Diff(Obs{}, restrict(o, keys))
}

func restrict(o Obs, keys []string) Obs {
	out := Obs{}
	for _, k := range keys {
		out[k] = o[k]
	}
	return out
}

// rawKind names what is missing: storage, code, delegations or a node of one of the three tries.
func rawKind(keys []string) string {
	for _, want := range []string{"delegations", "code", "storage", "val", "staking", "state"} {
		for _, k := range keys {
			if strings.HasPrefix(k, "trie/"+want+"/") {
				return want
			}
		}
	}
	return "node"
}

// ---- commit, reload, crash points ----

// verifyReload opens the triple on a fresh Database over the durable image of disk and compares
// getters and raw dump. pfx is "" for the main line and "copy-" for a committed copy.
func (x *c10Run) verifyReload(pfx, where string, disk *simdisk.Disk, liveDB state.Database, roots [3]common.Hash, live Obs) (raw Obs, ok bool) {
	r := x.r
	d2 := disk.Restart()
	db2 := state.NewDatabase(d2)
	r.Fault("restart")
	raw = rawDump(db2, roots)
	if bad := rawErrors(raw); len(bad) > 0 {
		r.Report(pfx+"commit-incomplete:"+rawKind(bad), "%s: after Commit + TrieDB().Commit of the three roots the durable image cannot serve them:%s", where, describeDiff(Obs{}, raw, bad))
		return raw, false
	}
	if liveDB != nil {
		rawLive := rawDump(liveDB, roots)
		if d := Diff(rawLive, raw); len(d) > 0 {
			r.Report(pfx+"reload-mismatch:raw", "%s: raw trie dump through the live Database vs through a fresh Database over the disk:%s", where, describeDiff(rawLive, raw, d))
			return raw, false
		}
	}
	ns, err := state.New(roots[0], roots[1], roots[2], db2)
	if err != nil {
		r.Report(pfx+"reload-error", "%s: state.New on the restarted Database: %v", where, err)
		return raw, false
	}
	re, rok := x.observe(ns, false, pfx+"reload-panic", where+" (reading the restarted state)")
	if !rok {
		return raw, false
	}
	if d := Diff(live, re); len(d) > 0 {
		r.Report(pfx+"reload-mismatch:"+mainCategory(d), "%s: live object after IntermediateRoot vs state restarted from durable data:%s", where, describeDiff(live, re, d))
		return raw, false
	}
	return raw, true
}

// commit performs state.Commit + [Cap] + TrieDB().Commit x3 on env and returns the disk-log window.
func (x *c10Run) commit(env *Env, st *state.StateDB, want [3]common.Hash, who string) (roots [3]common.Hash, l0, l1 int, ok bool) {
	r, c := x.r, x.r.C
	l0 = env.Disk.LogLen()
	r0, r1, r2, err := st.Commit(true) // blockchain.go:803
	if err != nil {
		r.Report("commit-error", "%sCommit: %v", who, err)
		return roots, 0, 0, false
	}
	roots = [3]common.Hash{r0, r1, r2}
	r.Logf("%sCommit -> %s %s %s", who, nm(r0), nm(r1), nm(r2))
	if roots != want {
		r.Report("commit-root-differs", "%sCommit returned %s/%s/%s but the IntermediateRoot just before returned %s/%s/%s", who, nm(r0), nm(r1), nm(r2), nm(want[0]), nm(want[1]), nm(want[2]))
	}
	tdb := env.DB.TrieDB()
	if c.Chance("cap", 1, 3) {
		limit := []int{0, 1024, 8192, 65536}[c.Intn("cap-limit", 4)]
		lb := env.Disk.LogLen()
		if err := tdb.Cap(common.StorageSize(limit)); err != nil {
			r.Report("commit-error", "%sCap: %v", who, err)
			return roots, 0, 0, false
		}
		if env.Disk.LogLen() > lb {
			r.Fault("cap-flush")
		}
		r.Logf("%sTrieDB.Cap(%d)", who, limit)
	}
	for _, i := range c.Perm("root-order", 3) { // blockchain.go:810 ranges over a map
		if err := tdb.Commit(roots[i], false); err != nil {
			r.Report("commit-error", "%sTrieDB.Commit: %v", who, err)
			return roots, 0, 0, false
		}
	}
	l1 = env.Disk.LogLen()
	if l1-l0 > 3 {
		r.Probe("commit-spans-more-than-3-disk-writes")
	}
	return roots, l0, l1, true
}

// crashPoints enumerates every disk-write index of the commit window.
func (x *c10Run) crashPoints(env *Env, l0, l1 int, prev *c10Committed, cur *c10Committed, where string) {
	r := x.r
	for k := l0; k < l1; k++ {
		dk := env.Disk.Prefix(k)
		dbk := state.NewDatabase(dk)
		r.Fault("crash.in-commit-window")
		if prev != nil {
			raw := rawDump(dbk, prev.roots)
			if d := Diff(prev.raw, raw); len(d) > 0 {
				r.Report("crash-loses-previous-state", "%s: crash after disk write %d of [%d,%d): the previously committed triple no longer reads as committed:%s", where, k, l0, l1, describeDiff(prev.raw, raw, d))
				return
			}
		}
		present := 0
		for i, root := range cur.roots {
			if root == emptyRoot || root == (common.Hash{}) {
				continue
			}
			if has, _ := dk.Has(root[:]); !has {
				continue
			}
			present++
			rs := [3]common.Hash{emptyRoot, emptyRoot, emptyRoot}
			rs[i] = root
			part := rawDump(dbk, rs)
			want := rawPart(cur.raw, i)
			if d := Diff(want, part); len(d) > 0 {
				r.Report("crash-mixture", "%s: crash after disk write %d of [%d,%d): root %d (%s) is on disk but what it reaches is not the committed content:%s", where, k, l0, l1, i, nm(root), describeDiff(want, part, d))
				return
			}
		}
		if present > 0 && present < 3 {
			r.Probe("crash-with-some-but-not-all-new-roots-on-disk")
		}
	}
}

// replayBlock applies the recorded steps of one block exactly as the main line did and returns
// the roots of the block's IntermediateRoot.
func (x *c10Run) replayBlock(st *state.StateDB, blk *c10Block, who string) [3]common.Hash {
	if blk.reset {
		st.ResetStakingTrie()
	}
	for _, seg := range blk.segs {
		if !seg.isEnd {
			st.Prepare(seg.thash, blk.bhash, seg.txi)
		}
		for _, op := range seg.ops {
			x.apply(st, op, who)
		}
		if seg.end != "block" {
			x.boundary(st, seg.end, who)
		}
	}
	h0, h1, h2 := st.IntermediateRoot(true)
	x.stacks[st] = nil
	return [3]common.Hash{h0, h1, h2}
}

// recoverAfterCrash: the process died after disk write k of the commit window; a new process
// opens the last committed triple on the surviving image, imports the same blocks again and
// commits over whatever the crashed commit left behind. The result must be the committed content.
func (x *c10Run) recoverAfterCrash(env *Env, k int, prev *c10Committed, blocks []*c10Block, cur *c10Committed, where string) {
	r := x.r
	e2 := &Env{Disk: env.Disk.Prefix(k)}
	e2.DB = state.NewDatabase(e2.Disk)
	roots := [3]common.Hash{}
	if prev != nil {
		roots = prev.roots
	}
	st, err := state.New(roots[0], roots[1], roots[2], e2.DB)
	if err != nil {
		r.Report("crash-loses-previous-state", "%s: after a crash at disk write %d the previously committed triple cannot be opened: %v", where, k, err)
		return
	}
	r.Logf("  recover: crash after disk write %d, re-import of %d block(s) on the surviving image", k, len(blocks))
	var got [3]common.Hash
	for _, blk := range blocks {
		got = x.replayBlock(st, blk, "  recover: ")
	}
	if got != cur.roots {
		r.Report("recover-root-mismatch", "%s: re-import after a crash at disk write %d gives roots %s/%s/%s, the crashed process had %s/%s/%s", where, k,
			nm(got[0]), nm(got[1]), nm(got[2]), nm(cur.roots[0]), nm(cur.roots[1]), nm(cur.roots[2]))
		return
	}
	r0, r1, r2, err := st.Commit(true)
	if err != nil {
		r.Report("commit-error", "  recover: Commit: %v", err)
		return
	}
	for _, h := range []common.Hash{r0, r1, r2} {
		if err := e2.DB.TrieDB().Commit(h, false); err != nil {
			r.Report("commit-error", "  recover: TrieDB.Commit: %v", err)
			return
		}
	}
	raw := rawDump(state.NewDatabase(e2.Disk.Restart()), cur.roots)
	if d := Diff(cur.raw, raw); len(d) > 0 {
		r.Report("recover-incomplete:"+rawKind(d), "%s: after a crash at disk write %d, re-import and commit, the durable image does not serve the committed content:%s", where, k, describeDiff(cur.raw, raw, d))
		return
	}
	r.Fault("crash.recovered-by-reimport")
}

// ---- the run ----

type c10Follower struct {
	st    *state.StateDB
	where string
	env   *Env // the Database (and its disk) the copy was created on; a copy keeps using it
}

func envOf(e *Env) *Env { return &Env{Disk: e.Disk, DB: e.DB} }

func runC10(r *kit.Run) {
	c := r.C
	env := newEnv()
	m := &Mutator{r: r, ValidatorWeight: 1 + c.Intn("valweight", 3), AccountWeight: 1, AllowStakingRecords: true}
	if c.Chance("staking-record-focus", 1, 4) {
		// swarm: staking records are written often and to one or two keys (main line and copy)
		m.StakeRecWeight = 6 + c.Intn("stakerec-weight", 6)
		m.NStakeKeys = 1 + c.Intn("stakerec-keys", 2)
		r.Probe("staking-record-focus-run")
	}
	m.BigCodes = c.Intn("bigcodes", 4) == 3
	x := &c10Run{r: r, m: m, stacks: map[*state.StateDB][]int{}}
	st := env.St

	nBlocks := 1 + c.Intn("blocks", 3)
	// where the one copy of this run is taken
	copyBlock := c.Intn("copy-block", nBlocks)
	copyPos := c.Intn("copy-pos", 5) // 0 none, 1 mid-transaction, 2 after a transaction boundary, 3 after the block's IntermediateRoot, 4 after Commit
	copySeg := c.Intn("copy-seg", 3) // which transaction of the block
	copySame := c.Chance("copy-same-ops", 1, 2)
	var plan []*c10Block
	var sinceCommit []*c10Block // blocks executed since the last commit (to re-import after a crash)
	var prev *c10Committed
	var follower *c10Follower
	reopened := false // st was just opened from roots (so a reset may be done by opening with an empty staking root)
	var lastRoots [3]common.Hash

	for b := 0; b < nBlocks; b++ {
		blk := &c10Block{height: uint64(b + 1), bhash: common.BigToHash(big.NewInt(int64(1000 + b)))}
		plan = append(plan, blk)
		sinceCommit = append(sinceCommit, blk)
		m.height = blk.height
		if b > 0 && c.Chance("new-staking-period", 1, 4) {
			blk.reset = true
			if reopened && c.Chance("open-with-empty-staking-root", 1, 2) {
				// insertChain: StakingRootForNewBlock (core/blockchain.go:381)
				ns, err := state.New(lastRoots[0], lastRoots[1], common.Hash{}, env.DB)
				if err != nil {
					r.Report("reopen-error", "state.New with an empty staking root: %v", err)
					return
				}
				st = ns
				r.Logf("new staking period: opened with an empty staking root")
			} else {
				st.ResetStakingTrie() // verifyAllSideChainBlocks: ResetStakingTrieOnNewPeriod (core/blockchain.go:638)
				r.Logf("new staking period: ResetStakingTrie")
			}
			if follower != nil {
				follower.st.ResetStakingTrie()
			}
			r.FP("reset-staking")
		}
		reopened = false
		nTx := c.Intn("txs", 4)
		for s := 0; s <= nTx; s++ {
			seg := &c10Seg{isEnd: s == nTx, txi: s, thash: common.BigToHash(big.NewInt(int64(b*100 + s + 1)))}
			blk.segs = append(blk.segs, seg)
			if !seg.isEnd {
				st.Prepare(seg.thash, blk.bhash, seg.txi)
				if follower != nil {
					follower.st.Prepare(seg.thash, blk.bhash, seg.txi)
				}
			}
			nOps := c.Intn("ops", 11)
			if !seg.isEnd {
				nOps++
			}
			var cp *state.StateDB // a 'different operations' copy taken inside this segment
			var cpObs Obs
			cpWhere := ""
			var pre []*Op
			if b == 0 && s == 0 {
				pre = append(pre, m.genInitDelegators())
				if m.BigCodes && c.Chance("deploy-batch", 2, 3) {
					pre = append(pre, m.genDeployBatch())
				}
				nOps += len(pre)
			}
			for i := 0; i < nOps; i++ {
				r.Steps++
				var op *Op
				if i < len(pre) {
					op = pre[i]
				} else if seg.isEnd {
					op = m.GenEndBlock(st)
				} else {
					switch c.Weighted("action", []int{12, 2, 2}) {
					case 0:
						op = m.Gen(st)
					case 1:
						if len(x.stacks[st]) < 4 {
							op = &Op{Name: "snapshot", Ctl: "snap", Foot: []string{"*"}}
						}
					case 2:
						if n := len(x.stacks[st]); n > 0 {
							op = &Op{Name: "revert", Ctl: "revert", Arg: n - 1 - c.Intn("revert-to", n), Foot: []string{"*"}}
						}
					}
				}
				if op == nil {
					op = noop("skip")
				}
				seg.ops = append(seg.ops, op)
				r.FP(x.apply(st, op, ""))
				if follower != nil {
					x.apply(follower.st, op, "  follower: ")
				}
				seg.safeAfter = append(seg.safeAfter, len(x.stacks[st]) == 0 && c10Safe(st))
				if cp == nil && b == copyBlock && copyPos == 1 && !seg.isEnd && (s == copySeg || s == nTx-1) && i == nOps/2 && follower == nil {
					copyPos = 0
					cpWhere = fmt.Sprintf("mid-transaction (block %d tx %d after op %d)", b, s, i)
					if cp, cpObs = x.takeCopy(st, cpWhere); cp != nil {
						r.Probe("copy@mid-transaction")
					}
				}
			}
			// segment end
			switch {
			case seg.isEnd:
				seg.end = "block"
			case c.Chance("intermediate-root", 1, 4):
				seg.end = "iroot"
			default:
				seg.end = "finalise"
			}
			seg.endSafe = c10Safe(st)
			if seg.end != "block" {
				x.boundary(st, seg.end, "")
				r.FP(seg.end)
				if follower != nil {
					x.boundary(follower.st, seg.end, "  follower: ")
				}
			}
			if cp != nil {
				// the original went on to the end of its transaction; the copy must not have moved
				if !x.differentOps(env, st, cp, cpObs, cpWhere, true) {
					return
				}
				cp = nil
			}
			if b == copyBlock && copyPos == 2 && !seg.isEnd && (s == copySeg || s == nTx-1) && follower == nil {
				copyPos = 0
				where := fmt.Sprintf("after %s (block %d tx %d)", seg.end, b, s)
				ncp, obs := x.takeCopy(st, where)
				if ncp != nil {
					r.Probe("copy@" + seg.end)
					if copySame {
						follower = &c10Follower{st: ncp, where: where, env: envOf(env)}
						r.Probe("copy-same-ops")
					} else if !x.differentOps(env, st, ncp, obs, where, false) {
						return
					}
				}
			}
		}
		// end of block: FinalizeAndAssemble / ValidateState compute the roots
		h0, h1, h2 := st.IntermediateRoot(true)
		blk.roots = [3]common.Hash{h0, h1, h2}
		x.stacks[st] = nil
		r.Logf("IntermediateRoot (end of block %d) -> %s %s %s", b, nm(h0), nm(h1), nm(h2))
		r.FP("block-iroot")
		live, ok := x.observe(st, false, "live-read-panic", fmt.Sprintf("block %d after IntermediateRoot", b))
		if !ok {
			return
		}
		if follower != nil {
			if !x.finishFollower(follower, blk.roots, fmt.Sprintf("block %d", b)) {
				return
			}
			follower = nil
		}
		if b == copyBlock && copyPos == 3 {
			copyPos = 0
			where := fmt.Sprintf("after the IntermediateRoot of block %d", b)
			ncp, obs := x.takeCopy(st, where)
			if ncp != nil {
				r.Probe("copy@block-iroot")
				if copySame {
					r.Probe("copy-same-ops")
					if !x.finishFollower(&c10Follower{st: ncp, where: where, env: envOf(env)}, blk.roots, fmt.Sprintf("block %d", b)) {
						return
					}
				} else if !x.differentOps(env, st, ncp, obs, where, false) {
					return
				}
			}
		}
		last := b == nBlocks-1
		if !last && c.Chance("no-commit", 1, 5) {
			// verifyAllSideChainBlocks: the next block is processed on the same object
			r.Logf("no commit: the next block goes on the same object")
			r.FP("same-object")
			continue
		}
		where := fmt.Sprintf("block %d", b)
		roots, l0, l1, ok := x.commit(env, st, blk.roots, "")
		if !ok {
			return
		}
		lastRoots = roots
		// (a) reopen on the same Database
		if ns, err := state.New(roots[0], roots[1], roots[2], env.DB); err != nil {
			r.Report("reopen-error", "%s: state.New on the same Database: %v", where, err)
			return
		} else if re, rok := x.observe(ns, false, "reopen-panic", where+" (reading the reopened state)"); !rok {
			return
		} else if d := Diff(live, re); len(d) > 0 {
			r.Report("reopen-mismatch:"+mainCategory(d), "%s: live object after IntermediateRoot vs state.New on the same Database:%s", where, describeDiff(live, re, d))
			return
		}
		// (b) restart on durable data only
		raw, ok := x.verifyReload("", where, env.Disk, env.DB, roots, live)
		if !ok {
			return
		}
		cur := &c10Committed{roots: roots, raw: raw}
		// fault enumeration: every crash point of the commit window
		x.crashPoints(env, l0, l1, prev, cur, where)
		if l1 > l0 && c.Chance("recover-after-crash", 1, 3) {
			x.recoverAfterCrash(env, l0+c.Intn("crash-at", l1-l0), prev, sinceCommit, cur, where)
		}
		sinceCommit = nil
		prev = cur
		// a copy of the committed object
		var after *state.StateDB
		afterEnv := envOf(env)
		if b == copyBlock && copyPos == 4 {
			copyPos = 0
			w := fmt.Sprintf("after the Commit of block %d", b)
			ncp, obs := x.takeCopy(st, w)
			if ncp != nil {
				r.Probe("copy@commit")
				if copySame || last {
					after = ncp
					r.Probe("copy-same-ops")
				} else if !x.differentOps(env, nil, ncp, obs, w, false) {
					return
				}
			}
		}
		if last {
			if after != nil {
				if !x.finishFollower(&c10Follower{st: after, where: "after the last Commit", env: afterEnv}, roots, where) {
					return
				}
			}
			break
		}
		// continue on a state opened from the roots, after a restart or on the same Database
		if c.Chance("restart", 1, 2) {
			env.Disk = env.Disk.Restart()
			env.DB = state.NewDatabase(env.Disk)
			r.Logf("RESTART: the next block is built over a fresh Database on the durable image")
			r.FP("restart")
		} else {
			r.FP("reopen")
		}
		ns, err := state.New(roots[0], roots[1], roots[2], env.DB)
		if err != nil {
			r.Report("reopen-error", "%s: state.New for the next block: %v", where, err)
			return
		}
		st = ns
		reopened = true
		if after != nil {
			// NOTE: the copy keeps using the Database it was created with
			follower = &c10Follower{st: after, where: fmt.Sprintf("after the Commit of block %d", b), env: afterEnv}
		}
	}
	env.St = st
	// (d) rebuild the same content in a different grouping / order
	x.rebuild(plan)
}

// takeCopy copies st and checks equality at copy time.
func (x *c10Run) takeCopy(st *state.StateDB, where string) (*state.StateDB, Obs) {
	r := x.r
	orig, ok := x.observe(st, true, "live-read-panic", "original at copy point "+where)
	if !ok {
		return nil, nil
	}
	cp := st.Copy() // blockchain.go:716, miner/worker.go:519, tx_noncer.go:38
	r.Fault("copy")
	r.Logf("Copy %s", where)
	r.FP("copy")
	if r.C.Chance("copy-of-copy", 1, 3) {
		// miner/worker.go:530: pending() hands out a copy of the snapshot copy
		cp = cp.Copy()
		r.Logf("Copy of that copy")
		r.FP("copy-of-copy")
		r.Probe("copy-of-copy")
	}
	got, ok := x.observe(cp, true, "copy-read-panic", "copy taken "+where)
	if !ok {
		r.Logf("copy dropped")
		return nil, nil
	}
	if d := Diff(orig, got); len(d) > 0 {
		r.Report("copy-not-equal:"+mainCategory(d), "copy taken %s differs from the original at copy time:%s", where, describeDiff(orig, got, d))
		return nil, nil
	}
	return cp, got
}

// differentOps: independence in both directions, then the copy is committed and reloaded.
// origMoved: the original has executed operations since the copy was taken.
func (x *c10Run) differentOps(env *Env, st, cp *state.StateDB, cpObs Obs, where string, origMoved bool) bool {
	r, c := x.r, x.r.C
	if origMoved {
		now, ok := x.observe(cp, true, "copy-read-panic", "copy taken "+where+", after the original went on")
		if !ok {
			return true
		}
		if d := Diff(cpObs, now); len(d) > 0 {
			r.Report("copy-sees-original-writes:"+mainCategory(d), "copy taken %s changed while only the original was written:%s", where, describeDiff(cpObs, now, d))
			return true
		}
		r.Probe("copy-checked-after-original-moved")
	}
	var origObs Obs
	if st != nil {
		var ok bool
		if origObs, ok = x.observe(st, true, "live-read-panic", "original before the copy's operations"); !ok {
			return false
		}
	}
	m2 := &Mutator{r: r, height: x.m.height, wdNonce: 1000 + x.m.wdNonce, ValidatorWeight: 2, AccountWeight: 1, AllowStakingRecords: true, BigCodes: x.m.BigCodes,
		StakeRecWeight: x.m.StakeRecWeight, NStakeKeys: x.m.NStakeKeys}
	n := 1 + c.Intn("copy-ops", 8)
	for i := 0; i < n; i++ {
		r.Steps++
		cp.GetValidatorsForUpdate()
		m2.RunAs("  copy: ", m2.Gen(cp), cp)
	}
	cp.Finalise(true)
	for i, n := 0, c.Intn("copy-endops", 4); i < n; i++ {
		cp.GetValidatorsForUpdate()
		m2.RunAs("  copy: ", m2.GenEndBlock(cp), cp)
	}
	if st != nil {
		now, ok := x.observe(st, true, "live-read-panic", "original after the copy's operations")
		if !ok {
			return false
		}
		if d := Diff(origObs, now); len(d) > 0 {
			r.Report("original-sees-copy-writes:"+mainCategory(d), "the original changed while only its copy (taken %s) was written:%s", where, describeDiff(origObs, now, d))
			return false
		}
	}
	h0, h1, h2 := cp.IntermediateRoot(true)
	return x.commitCopy(envOf(env), cp, [3]common.Hash{h0, h1, h2}, where)
}

// commitCopy commits a copy (already at IntermediateRoot) and checks that it reloads exactly.
func (x *c10Run) commitCopy(env *Env, cp *state.StateDB, want [3]common.Hash, where string) bool {
	live, ok := x.observe(cp, false, "copy-read-panic", "copy taken "+where+", before its Commit")
	if !ok {
		return true
	}
	roots, _, _, ok := x.commit(env, cp, want, "  copy: ")
	if !ok {
		return false
	}
	// the copy shares the Database of its original; compare against the disk of that Database
	disk := env.Disk
	x.verifyReload("copy-", "copy taken "+where, disk, nil, roots, live)
	return true
}

// finishFollower: a copy that replayed the original's operations must arrive at the same roots,
// and its own commit (done before the original's) must reload exactly.
func (x *c10Run) finishFollower(f *c10Follower, want [3]common.Hash, where string) bool {
	r := x.r
	h0, h1, h2 := f.st.IntermediateRoot(true)
	x.stacks[f.st] = nil
	got := [3]common.Hash{h0, h1, h2}
	r.Logf("  follower: IntermediateRoot -> %s %s %s", nm(h0), nm(h1), nm(h2))
	if got != want {
		r.Report("copy-diverges", "copy taken %s replayed the same operations as its original up to the end of %s but has roots %s/%s/%s, the original %s/%s/%s",
			f.where, where, nm(got[0]), nm(got[1]), nm(got[2]), nm(want[0]), nm(want[1]), nm(want[2]))
	}
	return x.commitCopy(f.env, f.st, got, f.where)
}

// ---- (d) rebuild ----

// permute returns a seeded linear extension of the conflict order of ops (identity = boring).
func permute(c *kit.Chooser, ops []*Op) []*Op {
	n := len(ops)
	done := make([]bool, n)
	var out []*Op
	for len(out) < n {
		var cand []int
		for i := 0; i < n; i++ {
			if done[i] {
				continue
			}
			free := true
			for j := 0; j < i; j++ {
				if !done[j] && ops[j].Conflicts(ops[i]) {
					free = false
					break
				}
			}
			if free {
				cand = append(cand, i)
			}
		}
		k := cand[c.Intn("perm", len(cand))]
		done[k] = true
		out = append(out, ops[k])
	}
	return out
}

func (x *c10Run) rebuild(plan []*c10Block) {
	r, c := x.r, x.r.C
	mode := c.Intn("rebuild", 3) // 0 none, 1 regroup, 2 permute
	if mode == 0 {
		return
	}
	cls := []string{"", "regroup-root-mismatch", "permute-root-mismatch"}[mode]
	who := []string{"", "  regroup: ", "  permute: "}[mode]
	env := newEnv()
	st := env.St
	changed := 0
	reopened := false
	var lastRoots [3]common.Hash
	for b, blk := range plan {
		if blk.reset {
			if reopened && c.Chance("open-with-empty-staking-root", 1, 2) {
				ns, err := state.New(lastRoots[0], lastRoots[1], common.Hash{}, env.DB)
				if err != nil {
					r.Report("reopen-error", "%sstate.New with an empty staking root: %v", who, err)
					return
				}
				st = ns
			} else {
				st.ResetStakingTrie()
			}
		}
		reopened = false
		for si, seg := range blk.segs {
			if !seg.isEnd {
				st.Prepare(seg.thash, blk.bhash, seg.txi)
			}
			ops := seg.ops
			if mode == 2 {
				ops = permute(c, seg.ops)
				for i := range ops {
					if ops[i] != seg.ops[i] {
						changed++
						break
					}
				}
			}
			for i, op := range ops {
				x.apply(st, op, who)
				if mode == 1 && seg.safeAfter[i] && i < len(ops)-1 && c.Chance("insert-boundary", 1, 6) {
					kind := []string{"finalise", "iroot"}[c.Intn("inserted-kind", 2)]
					x.boundary(st, kind, who+"inserted ")
					changed++
				}
			}
			if seg.end == "block" {
				break
			}
			end := seg.end
			if seg.endSafe {
				switch c.Intn("boundary-variant", 3) {
				case 1: // switch Finalise <-> IntermediateRoot
					if end == "finalise" {
						end = "iroot"
					} else {
						end = "finalise"
					}
					changed++
				case 2: // drop the boundary: the next segment joins this transaction
					if mode == 1 && si < len(blk.segs)-1 {
						end = ""
						changed++
					}
				}
			}
			if end != "" {
				x.boundary(st, end, who)
			} else {
				// snapshots of the joined transaction stay open in the state under test, but the
				// plan's later reverts address only snapshots taken after this point
				x.stacks[st] = nil
				r.Logf("%sboundary dropped", who)
			}
		}
		h0, h1, h2 := st.IntermediateRoot(true)
		x.stacks[st] = nil
		got := [3]common.Hash{h0, h1, h2}
		r.Logf("%sIntermediateRoot (end of block %d) -> %s %s %s", who, b, nm(h0), nm(h1), nm(h2))
		if got != blk.roots {
			r.Report(cls, "block %d: the same operations written in a different %s give roots %s/%s/%s, the original run %s/%s/%s", b,
				[]string{"", "grouping", "order"}[mode], nm(got[0]), nm(got[1]), nm(got[2]), nm(blk.roots[0]), nm(blk.roots[1]), nm(blk.roots[2]))
			return
		}
		if b == len(plan)-1 {
			break
		}
		// a different continuation than the main line's is a different grouping, too
		switch c.Intn("rebuild-continue", 3) {
		case 0:
			// same object
		default:
			r0, r1, r2, err := st.Commit(true)
			if err != nil {
				r.Report("commit-error", "%sCommit: %v", who, err)
				return
			}
			lastRoots = [3]common.Hash{r0, r1, r2}
			for _, h := range lastRoots {
				if err := env.DB.TrieDB().Commit(h, false); err != nil {
					r.Report("commit-error", "%sTrieDB.Commit: %v", who, err)
					return
				}
			}
			if c.Chance("rebuild-restart", 1, 2) {
				env.Disk = env.Disk.Restart()
				env.DB = state.NewDatabase(env.Disk)
			}
			ns, err := state.New(r0, r1, r2, env.DB)
			if err != nil {
				r.Report("reopen-error", "%sstate.New: %v", who, err)
				return
			}
			st = ns
			reopened = true
			r.Logf("%scommit + reopen", who)
		}
	}
	if changed > 0 {
		r.Probe([]string{"", "rebuilt-regrouped", "rebuilt-permuted"}[mode])
	}
}
