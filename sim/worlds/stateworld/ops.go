package stateworld

import (
	"fmt"
	"math/big"
	"sort"
	"strings"

	"verifsim/kit"

	"github.com/youchainhq/go-youchain/common"
	"github.com/youchainhq/go-youchain/core/state"
	"github.com/youchainhq/go-youchain/core/types"
	"github.com/youchainhq/go-youchain/crypto"
	"github.com/youchainhq/go-youchain/params"
)

// Op is one recorded mutation with concrete arguments. Gen* functions draw every decision from
// the chooser while looking at the state under test and return an Op; Apply performs it. An Op
// can be re-applied to another state (C10: copies, regrouped and permuted rebuilds). Apply reads
// the state only inside the Op's footprint, so two Ops with disjoint footprints commute.
type Op struct {
	Name string   // abstract name (fingerprint token)
	Desc string   // trace text with the concrete arguments
	Foot []string // footprint keys ("acct:A1", "val:V2", "queue", "srec:…", "pendingr", "refund", "statrew")
	// Apply performs the mutation and returns an abstract outcome ("" = nothing to add).
	// nil = the generator found nothing to do (no-op).
	Apply func(st *state.StateDB) string
	// Ctl marks the two control steps a recorded plan may contain besides mutations:
	// "snap" (Snapshot) and "revert" (RevertToSnapshot of the Arg-th open snapshot).
	Ctl string
	Arg int
}

// Conflicts reports whether two ops share a footprint key (then their relative order matters).
// A key may carry a commutativity tag after '~' ("val:V1~deleg", "acct:A1~add"): two ops that
// touch the same key with the same tag commute by contract (both add to a balance; both edit
// different entries of a sorted delegation list and add to the totals), anything else on
// that key conflicts. "*" conflicts with everything, "val:*" with every validator key.
func (o *Op) Conflicts(p *Op) bool {
	for _, fa := range o.Foot {
		for _, fb := range p.Foot {
			a, ta := splitTag(fa)
			b, tb := splitTag(fb)
			if a == "*" || b == "*" {
				return true
			}
			if a == b && (ta == "" || ta != tb) {
				return true
			}
			if (a == "val:*" && strings.HasPrefix(b, "val:")) || (b == "val:*" && strings.HasPrefix(a, "val:")) {
				return true
			}
		}
	}
	return false
}

func splitTag(k string) (key, tag string) {
	if i := strings.IndexByte(k, '~'); i >= 0 {
		return k[:i], k[i+1:]
	}
	return k, ""
}

func noop(name string) *Op { return &Op{Name: name} }

// Mutator generates seeded mutations of a StateDB using only the call patterns production code
// uses. Each generator names the call site it imitates.
type Mutator struct {
	r         *kit.Run
	wdNonce   uint64 // unique (operator, nonce) identity for withdraw records, as tx nonces are
	height    uint64
	preimageN int
	// AllowStakingRecords enables AddStakingRecord/AddPendingRelationship. They are not
	// journalled by design (production never reverts across them), so C09 keeps them outside
	// snapshot..revert windows.
	AllowStakingRecords bool
	// ValidatorWeight scales how often validator-side mutations are drawn (0 = never).
	ValidatorWeight int
	// AccountWeight scales the account-side mutations (default 1 when zero and !NoAccounts).
	AccountWeight int
	// NoContracts drops code/storage/suicide/create-account operations (C08 is about validators
	// and delegator accounts; contract storage is C09/C10 matter).
	NoContracts bool
	// StakeRecWeight, NStakeKeys: staking-record focus (records are written often, to one or two
	// keys, so that one record's transaction-hash list grows on both sides of a Copy).
	StakeRecWeight int
	NStakeKeys     int
	// DelegationWeight, NDelegators: staking-focus mode (delegations drawn more often, from few
	// delegators, so that one delegator's list sees add / remove / add sequences).
	DelegationWeight int
	NDelegators      int
	// Hot, HotSlots, StorageWeight: contract-focus mode (see pickContractish / case 5 of Gen).
	Hot           []common.Address
	HotSlots      int
	StorageWeight int
	// BigCodes makes SetCode choose among large (24 KiB) distinct code blobs too, so that a
	// TrieDB().Commit spans several disk batches (C10 crash points).
	BigCodes bool
}

func tokens(n int64) *big.Int { return new(big.Int).Mul(big.NewInt(n), params.StakeUint) }

func amount(c *kit.Chooser) *big.Int {
	switch c.Intn("amt-kind", 4) {
	case 0:
		return big.NewInt(int64(c.Intn("amt", 1000)))
	case 1:
		return big.NewInt(0)
	case 2:
		return tokens(int64(1 + c.Intn("amt-tokens", 2000)))
	default:
		// tokens plus dust, so that token/StakeUint rounding matters
		return new(big.Int).Add(tokens(int64(c.Intn("amt-tokens", 3000))), big.NewInt(int64(c.Intn("dust", 1000))))
	}
}

func pickAddr(c *kit.Chooser) common.Address {
	i := c.Intn("addr", len(universe))
	return universe[i]
}

// pickContractish picks an address for operations only contracts / fresh accounts undergo
// (nonce rewrites, code, suicide, re-creation, balance overwrite). Delegator accounts are
// externally owned accounts that have sent a transaction: their nonce never decreases and
// they are never self-destructed or re-created, so those operations are not applied to them.
func pickContractish(c *kit.Chooser) common.Address {
	return accounts[c.Intn("addr", len(accounts))]
}

// pickContractish as a method honours the hot set: in contract-focus runs two thirds of the
// contract-side operations go to a few hot accounts so that multi-step histories on ONE slot
// (write in tx1, write back in tx2, snapshot, write, revert) are reached often.
func (m *Mutator) pickContractish(c *kit.Chooser) common.Address {
	if len(m.Hot) > 0 && c.Chance("hot", 2, 3) {
		return m.Hot[c.Intn("hot-addr", len(m.Hot))]
	}
	return pickContractish(c)
}

// existingValidators returns the live validators in index order.
func existingValidators(st *state.StateDB) []*state.Validator {
	return st.GetValidatorsForUpdate()
}

func acctKey(a common.Address) string  { return "acct:" + nm(a) }
func valKeyOf(a common.Address) string { return "val:" + nm(a) }

// Step generates one mutation, applies it and returns its abstract name (for fingerprints).
func (m *Mutator) Step(st *state.StateDB) string {
	return m.Run(m.Gen(st), st)
}

// Run applies a recorded op to st, logs it and returns the fingerprint token.
func (m *Mutator) Run(op *Op, st *state.StateDB) string { return m.RunAs("", op, st) }

// RunAs is Run with a prefix on the trace line (which of several states the op was applied to).
func (m *Mutator) RunAs(who string, op *Op, st *state.StateDB) string {
	if op.Apply == nil {
		return op.Name
	}
	out := op.Apply(st)
	if out == "" {
		m.r.Logf("%s%s", who, op.Desc)
		return op.Name
	}
	m.r.Logf("%s%s -> %s", who, op.Desc, out)
	// the first word of an outcome is its abstract part (goes into the fingerprint)
	if i := strings.IndexByte(out, ' '); i >= 0 {
		out = out[:i]
	}
	return op.Name + "/" + out
}

// Gen draws one mutation (transaction-time operations: everything here is journalled, except
// staking records which are only drawn when AllowStakingRecords is set).
func (m *Mutator) Gen(st *state.StateDB) *Op {
	c := m.r.C
	vw := m.ValidatorWeight
	aw := m.AccountWeight
	if aw == 0 {
		aw = 1
	}
	weights := []int{
		10 * aw, // 0 AddBalance
		6 * aw,  // 1 SubBalance
		3 * aw,  // 2 AddBalance again (SetBalance has no production caller outside genesis)
		5 * aw,  // 3 SetNonce
		4 * aw,  // 4 SetCode
		10 * aw, // 5 SetState
		3 * aw,  // 6 Suicide
		3 * aw,  // 7 CreateAccount
		4 * aw,  // 8 AddLog
		3 * aw,  // 9 refund
		2 * aw,  // 10 preimage
		3 * vw,  // 11 CreateValidator
		6 * vw,  // 12 update (PartialCopy + UpdateValidator)
		3 * vw,  // 13 in-place update of GetValidatorsForUpdate entries
		5 * vw,  // 14 UpdateDelegation
		3 * vw,  // 15 AddWithdrawRecord
		2 * vw,  // 16 RemoveWithdrawRecords
		0,       // 17 staking record
	}
	if m.AllowStakingRecords {
		weights[17] = 3
		if m.StakeRecWeight > 1 {
			weights[17] *= m.StakeRecWeight
		}
	}
	if m.StorageWeight > 1 {
		weights[5] *= m.StorageWeight
	}
	if m.DelegationWeight > 1 {
		weights[14] *= m.DelegationWeight
	}
	if m.NoContracts {
		weights[4], weights[5], weights[6], weights[7] = 0, 0, 0, 0
	}
	op := c.Weighted("op", weights)
	switch op {
	case 0, 2:
		a, v := pickAddr(c), amount(c)
		return &Op{Name: "addbal", Desc: fmt.Sprintf("AddBalance %s %s", nm(a), v), Foot: []string{acctKey(a) + "~add"},
			Apply: func(st *state.StateDB) string { st.AddBalance(a, v); return "" }}
	case 1:
		a := pickAddr(c)
		v := amount(c)
		// Transfer (core/evm.go) and the staking handlers debit an existing account (the sender of
		// a message) after CanTransfer: never a non-existent account, never more than the balance
		// (clamped when applied). A debit of a non-existent account would leave an object that
		// no journal entry marks dirty (createObject journals resetObjectChange, SubBalance(0)
		// nothing) — not a call production makes.
		if !st.Exist(a) {
			return noop("subbal-skip")
		}
		return &Op{Name: "subbal", Desc: fmt.Sprintf("SubBalance %s min(balance,%s)", nm(a), v), Foot: []string{acctKey(a)},
			Apply: func(st *state.StateDB) string {
				if !st.Exist(a) {
					return "skip"
				}
				w := v
				if bal := st.GetBalance(a); w.Cmp(bal) > 0 {
					w = new(big.Int).Set(bal)
				}
				st.SubBalance(a, w)
				return "ok " + w.String()
			}}
	case 3:
		// nonces only ever advance by one (state_transition.go, evm.go:336)
		a := m.pickContractish(c)
		return &Op{Name: "setnonce", Desc: fmt.Sprintf("SetNonce %s nonce+1", nm(a)), Foot: []string{acctKey(a)},
			Apply: func(st *state.StateDB) string {
				n := st.GetNonce(a) + 1
				st.SetNonce(a, n)
				return "ok " + fmt.Sprint(n)
			}}
	case 4:
		// code is set once, on an account under construction (evm.go:371-380)
		a := m.pickContractish(c)
		if st.GetNonce(a) == 0 || st.GetCodeSize(a) != 0 {
			return noop("setcode-skip")
		}
		var code []byte
		if m.BigCodes {
			if i := c.Intn("code", len(codes)-1+nBigCodes); i < len(codes)-1 {
				code = codes[1+i]
			} else {
				code = bigCode(i - (len(codes) - 1))
			}
		} else {
			code = codes[1+c.Intn("code", len(codes)-1)]
		}
		return &Op{Name: "setcode", Desc: fmt.Sprintf("SetCode %s len=%d %x…", nm(a), len(code), code[:2]), Foot: []string{acctKey(a)},
			Apply: func(st *state.StateDB) string {
				if st.GetNonce(a) == 0 || st.GetCodeSize(a) != 0 {
					return "skip"
				}
				st.SetCode(a, code)
				return ""
			}}
	case 5:
		// SSTORE runs in the context of a contract or of an account under construction
		a := m.pickContractish(c)
		if st.GetNonce(a) == 0 && st.GetCodeSize(a) == 0 {
			return noop("setstate-skip")
		}
		nsl, nv := nSlots, 4
		if m.HotSlots > 0 {
			nsl, nv = m.HotSlots, 3 // few slots, few values: "written back to an earlier value" becomes common
		}
		k := common.BigToHash(big.NewInt(int64(c.Intn("slot", nsl))))
		v := common.BigToHash(big.NewInt(int64(c.Intn("val", nv))))
		return &Op{Name: "setstate", Desc: fmt.Sprintf("SetState %s %s=%s", nm(a), k.Hex()[60:], v.Hex()[60:]), Foot: []string{acctKey(a)},
			Apply: func(st *state.StateDB) string {
				if st.GetNonce(a) == 0 && st.GetCodeSize(a) == 0 {
					return "skip"
				}
				st.SetState(a, k, v)
				return ""
			}}
	case 6:
		a := m.pickContractish(c)
		return &Op{Name: "suicide", Desc: fmt.Sprintf("Suicide %s", nm(a)), Foot: []string{acctKey(a)},
			Apply: func(st *state.StateDB) string { return fmt.Sprint(st.Suicide(a)) }}
	case 7:
		// EVM create (evm.go:338-347): refused on collision, else CreateAccount + SetNonce(1)
		a := m.pickContractish(c)
		collides := func(st *state.StateDB) bool {
			ch := st.GetCodeHash(a)
			return st.GetNonce(a) != 0 || (ch != (common.Hash{}) && ch != emptyCodeHash)
		}
		if collides(st) {
			return noop("createacct-collision")
		}
		return &Op{Name: "createacct", Desc: fmt.Sprintf("CreateAccount+SetNonce(1) %s", nm(a)), Foot: []string{acctKey(a)},
			Apply: func(st *state.StateDB) string {
				if collides(st) {
					return "collision"
				}
				st.CreateAccount(a)
				st.SetNonce(a, 1)
				return ""
			}}
	case 8:
		a := pickAddr(c)
		topic := common.BigToHash(big.NewInt(int64(c.Intn("topic", 3))))
		data := []byte{byte(c.Intn("logdata", 256))}
		h := m.height
		return &Op{Name: "addlog", Desc: fmt.Sprintf("AddLog %s", nm(a)),
			Apply: func(st *state.StateDB) string {
				st.AddLog(&types.Log{Address: a, Topics: []common.Hash{topic}, Data: append([]byte(nil), data...), BlockNumber: h})
				return ""
			}}
	case 9:
		if c.Chance("subrefund", 1, 3) && st.GetRefund() > 0 {
			g := uint64(c.Intn("g", int(st.GetRefund())+1))
			return &Op{Name: "subrefund", Desc: fmt.Sprintf("SubRefund min(refund,%d)", g), Foot: []string{"refund"},
				Apply: func(st *state.StateDB) string {
					w := g
					if w > st.GetRefund() {
						w = st.GetRefund()
					}
					st.SubRefund(w)
					return ""
				}}
		}
		g := uint64(c.Intn("g", 5000))
		return &Op{Name: "addrefund", Desc: fmt.Sprintf("AddRefund %d", g), Foot: []string{"refund"},
			Apply: func(st *state.StateDB) string { st.AddRefund(g); return "" }}
	case 10:
		m.preimageN++
		p := []byte(fmt.Sprintf("preimage-%d", c.Intn("pre", 4)))
		return &Op{Name: "preimage", Desc: fmt.Sprintf("AddPreimage %s", p),
			Apply: func(st *state.StateDB) string { st.AddPreimage(crypto.Keccak256Hash(p), p); return "" }}
	case 11:
		return m.genCreateValidator(st)
	case 12:
		return m.genUpdateValidatorCopy(st)
	case 13:
		return m.genUpdateValidatorsInPlace(st)
	case 14:
		return m.genUpdateDelegation(st)
	case 15:
		return m.genAddWithdraw(st)
	case 16:
		return m.genRemoveWithdraw(st)
	case 17:
		return m.genStakingRecord(st)
	}
	return noop("noop")
}

const nBigCodes = 6

// genDeployBatch imitates a factory transaction (evm.go:338-380 several times): five or six
// accounts are created with distinct 24 KiB codes, so that the block's TrieDB().Commit needs
// more than one 100 KiB disk batch (5 x 24 KiB is well above the batch size, so whether an
// intermediate batch is written does not depend on the order in which nodes are visited).
func (m *Mutator) genDeployBatch() *Op {
	n := 5 + m.r.C.Intn("deploy-n", 2)
	var foot []string
	for i := 0; i < n; i++ {
		foot = append(foot, acctKey(accounts[i]))
	}
	return &Op{Name: "deploybatch", Desc: fmt.Sprintf("DeployBatch %d contracts with 24 KiB codes", n), Foot: foot,
		Apply: func(st *state.StateDB) string {
			for i := 0; i < n; i++ {
				a := accounts[i]
				if st.GetNonce(a) != 0 || st.GetCodeSize(a) != 0 {
					continue
				}
				st.CreateAccount(a)
				st.SetNonce(a, 1)
				st.SetCode(a, bigCode(i))
			}
			return ""
		}}
}

// genInitDelegators: delegators are accounts that have sent a transaction (nonce >= 1).
func (m *Mutator) genInitDelegators() *Op {
	var foot []string
	for _, d := range delegators {
		foot = append(foot, acctKey(d))
	}
	return &Op{Name: "initdelegators", Desc: "SetNonce(1) on every delegator account", Foot: foot,
		Apply: func(st *state.StateDB) string {
			for _, d := range delegators {
				if st.GetNonce(d) == 0 {
					st.SetNonce(d, 1)
				}
			}
			return ""
		}}
}

// bigCode returns the i-th large code blob (24 KiB, the EVM's size limit; distinct per i).
func bigCode(i int) []byte {
	b := make([]byte, 24576)
	for j := range b {
		b[j] = byte(j*31 + i*7 + 1)
	}
	b[0], b[1] = 0x60, byte(0x80+i)
	return b
}

// genCreateValidator imitates teCreate (staking/take_effect_handler.go:83) and genesis (core/genesis.go:269).
func (m *Mutator) genCreateValidator(st *state.StateDB) *Op {
	c := m.r.C
	k := valKeys[c.Intn("valkey", len(valKeys))]
	role := params.ValidatorRole(1 + c.Intn("role", 3))
	tok := tokens(int64(1 + c.Intn("tokens", 3000)))
	status := params.ValidatorOffline
	if c.Chance("online", 1, 2) {
		status = params.ValidatorOnline
	}
	name := fmt.Sprintf("v%x", k.addr[:2])
	operator, coinbase := accounts[c.Intn("op", len(accounts))], accounts[c.Intn("cb", len(accounts))]
	accept, comm, risk := uint16(c.Intn("accept", 2)), uint16(c.Intn("comm", 10001)), uint16(c.Intn("risk", 10001))
	return &Op{Name: "createval", Desc: fmt.Sprintf("CreateValidator %s role=%d tok=%s status=%d", nm(k.addr), role, tok, status), Foot: []string{valKeyOf(k.addr)},
		Apply: func(st *state.StateDB) string {
			v := st.CreateValidator(name, operator, coinbase, role, k.pub, k.bls, tok, params.YOUToStake(tok), accept, comm, risk, status)
			if v == nil {
				return "exists"
			}
			return "created"
		}}
}

// genUpdateValidatorCopy imitates the `old := Get…; newVal := old.PartialCopy(); …;
// UpdateValidator(newVal, old)` pattern of teUpdate/teDeposit/teWithdraw/teChangeStatus
// (take_effect_handler.go:91-213), settleValidatorRewards and slash (endblock.go:331,421,480; slash.go:351).
// deposit and withdraw keep Token == SelfToken + Σ delegations and the stakes exactly the way
// teDeposit/teWithdraw do.
func (m *Mutator) genUpdateValidatorCopy(st *state.StateDB) *Op {
	c := m.r.C
	vals := existingValidators(st)
	if len(vals) == 0 {
		return noop("updval-none")
	}
	addr := vals[c.Intn("which", len(vals))].MainAddress()
	if st.GetValidatorByMainAddr(addr) == nil {
		return noop("updval-none")
	}
	kind := c.Intn("updkind", 7)
	var mutate func(nv *state.Validator)
	var what string
	h := m.height
	switch kind {
	case 0: // deposit (teDeposit)
		v := amount(c)
		what = "deposit " + v.String()
		mutate = func(nv *state.Validator) {
			nv.SelfToken.Add(nv.SelfToken, v)
			ns := params.YOUToStake(nv.SelfToken)
			delta := new(big.Int).Sub(ns, nv.SelfStake)
			nv.SelfStake.Set(ns)
			nv.Token.Add(nv.Token, v)
			nv.Stake.Add(nv.Stake, delta)
		}
	case 1: // withdraw (teWithdraw), possibly everything
		w0 := amount(c)
		all := c.Chance("all", 1, 4)
		off := c.Chance("force-offline", 1, 3)
		what = fmt.Sprintf("withdraw %s all=%v offline=%v", w0, all, off)
		mutate = func(nv *state.Validator) {
			w := w0
			if w.Cmp(nv.SelfToken) > 0 || all {
				w = new(big.Int).Set(nv.SelfToken)
			}
			nv.SelfToken.Sub(nv.SelfToken, w)
			ns := params.YOUToStake(nv.SelfToken)
			delta := new(big.Int).Sub(nv.SelfStake, ns)
			nv.SelfStake.Set(ns)
			nv.Token.Sub(nv.Token, w)
			nv.Stake.Sub(nv.Stake, delta)
			if off {
				nv.Status = params.ValidatorOffline
			}
		}
	case 2: // status (teChangeStatus)
		what = "toggle-status"
		mutate = func(nv *state.Validator) {
			if nv.Status == params.ValidatorOnline {
				nv.Status = params.ValidatorOffline
			} else {
				nv.Status = params.ValidatorOnline
			}
			nv.UpdateLastActive(h)
		}
	case 3: // descriptive fields (teUpdate)
		name := fmt.Sprintf("n%d", c.Intn("name", 4))
		cb := accounts[c.Intn("cb", len(accounts))]
		comm := uint16(c.Intn("comm", 10001))
		accept := uint16(c.Intn("accept", 2))
		what = "describe " + name
		mutate = func(nv *state.Validator) {
			nv.Name = name
			nv.Coinbase = cb
			nv.CommissionRate = comm
			nv.AcceptDelegation = accept
		}
	case 4: // rewards (endblock.go:188-211)
		v := amount(c)
		what = "rewards " + v.String()
		mutate = func(nv *state.Validator) { nv.AddTotalRewards(v) }
	case 5: // settle (endblock.go:421)
		what = "settle"
		mutate = func(nv *state.Validator) {
			nv.RewardsDistributable = new(big.Int)
			nv.RewardsLastSettled = h
		}
	case 6: // expel (doPenalize without amount, slash.go:346-369): expel and set offline
		what = "expel"
		mutate = func(nv *state.Validator) {
			nv.Expelled = true
			nv.ExpelExpired = h + 10
			nv.Status = params.ValidatorOffline
			nv.LastInactive = h
		}
	}
	return &Op{Name: fmt.Sprintf("updval%d", kind), Desc: fmt.Sprintf("UpdateValidator(copy) %s %s", nm(addr), what), Foot: []string{valKeyOf(addr)},
		Apply: func(st *state.StateDB) string {
			old := st.GetValidatorByMainAddr(addr)
			if old == nil {
				return "none"
			}
			nv := old.PartialCopy()
			mutate(nv)
			ok := st.UpdateValidator(nv, old)
			abs := "ok"
			if nv.Token.Sign() == 0 {
				abs = "ok-zero-token"
			}
			return fmt.Sprintf("%s tok=%s stake=%s status=%d %v", abs, nv.Token, nv.Stake, nv.Status, ok)
		}}
}

type inPlaceAct struct {
	kind int
	amt  *big.Int
}

// genUpdateValidatorsInPlace imitates `all := GetValidatorsForUpdate(); old := val.PartialCopy();
// mutate val; UpdateValidator(val, old)` (endblock.go:130-135, slash_youv5.go:50-67).
func (m *Mutator) genUpdateValidatorsInPlace(st *state.StateDB) *Op {
	c := m.r.C
	all := st.GetValidatorsForUpdate()
	plan := map[common.Address]inPlaceAct{}
	var foot, desc []string
	for _, val := range all {
		if !c.Chance("touch", 1, 2) {
			continue
		}
		act := inPlaceAct{kind: c.Intn("inplace-kind", 3)}
		if act.kind == 2 {
			act.amt = amount(c)
		}
		plan[val.MainAddress()] = act
		foot = append(foot, valKeyOf(val.MainAddress()))
		desc = append(desc, fmt.Sprintf("%s:%d", nm(val.MainAddress()), act.kind))
	}
	h := m.height
	return &Op{Name: "updinplace", Desc: "UpdateValidator(in-place) " + strings.Join(desc, ","), Foot: foot,
		Apply: func(st *state.StateDB) string {
			n := 0
			for _, val := range st.GetValidatorsForUpdate() {
				act, ok := plan[val.MainAddress()]
				if !ok {
					continue
				}
				old := val.PartialCopy()
				switch act.kind {
				case 0:
					val.UpdateLastActive(h)
				case 1:
					if val.Status == params.ValidatorOnline {
						val.Status = params.ValidatorOffline
						val.LastInactive = h
					}
				case 2:
					val.AddTotalRewards(act.amt)
				}
				st.UpdateValidator(val, old)
				n++
			}
			return fmt.Sprintf("n=%d", n)
		}}
}

// genUpdateDelegation imitates teDelegationAdd/teDelegationSub (take_effect_handler.go:264,314).
// The delegator is an account that has sent a transaction (nonce >= 1), as in production.
func (m *Mutator) genUpdateDelegation(st *state.StateDB) *Op {
	c := m.r.C
	vals := existingValidators(st)
	if len(vals) == 0 {
		return noop("deleg-none")
	}
	vaddr := vals[c.Intn("which", len(vals))].MainAddress()
	val := st.GetValidatorByMainAddr(vaddr)
	if val == nil {
		return noop("deleg-none")
	}
	nd := len(delegators)
	if m.NDelegators > 0 && m.NDelegators < nd {
		nd = m.NDelegators
	}
	d := delegators[c.Intn("delegator", nd)]
	sub, all := false, false
	var w *big.Int
	if df := val.GetDelegationFrom(d); df != nil && c.Chance("sub", 1, 2) {
		sub = true
		w = amount(c)
		all = c.Chance("all", 1, 3)
	} else {
		w = tokens(int64(1 + c.Intn("dtokens", 500)))
	}
	desc := fmt.Sprintf("UpdateDelegation %s -> %s +%s", nm(d), nm(vaddr), w)
	if sub {
		desc = fmt.Sprintf("UpdateDelegation %s -> %s -min(%s,all=%v)", nm(d), nm(vaddr), w, all)
	}
	// footprint: the (delegator, validator) pair; the validator's totals and sorted list and the
	// delegator's sorted list and DelegationBalance are edited commutatively by other pairs.
	// The delegator's nonce is only written when it is still 0 (C10 initialises it up front).
	foot := []string{"dlg:" + nm(d) + ">" + nm(vaddr), valKeyOf(vaddr) + "~deleg", "dlgacct:" + nm(d) + "~deleg"}
	if st.GetNonce(d) == 0 {
		foot = append(foot, acctKey(d))
	}
	return &Op{Name: "deleg", Desc: desc, Foot: foot,
		Apply: func(st *state.StateDB) string {
			val := st.GetValidatorByMainAddr(vaddr)
			if val == nil {
				return "noval"
			}
			if st.GetNonce(d) == 0 {
				st.SetNonce(d, 1)
			}
			delta := w
			if sub {
				// teDelegationSub clamps to what is there
				df := val.GetDelegationFrom(d)
				if df == nil {
					return "nodeleg"
				}
				x := w
				if x.Cmp(df.Token) > 0 || all {
					x = new(big.Int).Set(df.Token)
				}
				delta = new(big.Int).Neg(x)
			}
			nv, _, _, flag := st.UpdateDelegation(d, val, delta)
			return fmt.Sprintf("flag=%d tok=%s", flag, nv.Token)
		}}
}

// genAddWithdraw imitates addWithdrawLog (take_effect_handler.go:327-350).
func (m *Mutator) genAddWithdraw(st *state.StateDB) *Op {
	c := m.r.C
	m.wdNonce++
	rec := state.NewWithdrawRecord()
	rec.Operator = accounts[c.Intn("op", len(accounts))]
	rec.Nonce = m.wdNonce
	rec.Validator = valKeys[c.Intn("valkey", len(valKeys))].addr
	rec.Recipient = accounts[c.Intn("rcpt", len(accounts))]
	v := amount(c)
	rec.InitialBalance = new(big.Int).Set(v)
	rec.FinalBalance = new(big.Int).Set(v)
	rec.CreationHeight = m.height
	rec.CompletionHeight = m.height + uint64(c.Intn("delay", 5))
	rec.TxHash = common.BigToHash(big.NewInt(int64(m.wdNonce)))
	return &Op{Name: "addwd", Desc: fmt.Sprintf("AddWithdrawRecord op=%s nonce=%d val=%s amt=%s", nm(rec.Operator), rec.Nonce, nm(rec.Validator), v), Foot: []string{"queue"},
		Apply: func(st *state.StateDB) string {
			// every state gets its own record object, as it would from its own handler run
			st.AddWithdrawRecord(rec.DeepCopy())
			return ""
		}}
}

// genRemoveWithdraw imitates processWithdrawQueue (endblock.go:544): ascending index list.
func (m *Mutator) genRemoveWithdraw(st *state.StateDB) *Op {
	c := m.r.C
	q := st.GetWithdrawQueue()
	if q == nil || q.Len() == 0 {
		return noop("rmwd-none")
	}
	var idx []int
	for i := 0; i < q.Len(); i++ {
		if c.Chance("rm", 1, 2) {
			idx = append(idx, i)
		}
	}
	if len(idx) == 0 {
		return noop("rmwd-none")
	}
	return &Op{Name: "rmwd", Desc: fmt.Sprintf("RemoveWithdrawRecords %v", idx), Foot: []string{"queue"},
		Apply: func(st *state.StateDB) string {
			n := st.GetWithdrawQueue().Len()
			var use []int
			for _, i := range idx {
				if i < n {
					use = append(use, i)
				}
			}
			if len(use) == 0 {
				return "none"
			}
			st.RemoveWithdrawRecords(use)
			return ""
		}}
}

// stakingRecord applies a staking-record write immediately (C09 uses it outside snapshot windows).
func (m *Mutator) stakingRecord(st *state.StateDB) string {
	return m.Run(m.genStakingRecord(st), st)
}

// genStakingRecord imitates the staking handlers (handler.go:94,194; delegation_handler.go:100,198).
func (m *Mutator) genStakingRecord(st *state.StateDB) *Op {
	c := m.r.C
	nk, nd := len(valKeys), len(delegators)
	if m.NStakeKeys > 0 {
		nk, nd = min(nk, m.NStakeKeys), min(nd, m.NStakeKeys)
	}
	v := valKeys[c.Intn("valkey", nk)].addr
	if c.Chance("delegation-record", 1, 2) {
		d := delegators[c.Intn("delegator", nd)]
		txh := common.BigToHash(big.NewInt(int64(c.Intn("txh", 1000) + 1)))
		amt := amount(c)
		return &Op{Name: "stakerec-d", Desc: fmt.Sprintf("AddStakingRecord d=%s v=%s tx=%s val=%s", nm(d), nm(v), nm(txh), amt),
			Foot: []string{"srec:" + nm(d) + nm(v), "pendingr~add"}, // the relationship set is sorted: insertions commute
			Apply: func(st *state.StateDB) string {
				if !st.PendingRelationshipExist(d, v) {
					st.AddPendingRelationship(d, v)
				}
				st.AddStakingRecord(d, v, txh, amt)
				return ""
			}}
	}
	txh := common.BigToHash(big.NewInt(int64(c.Intn("txh", 1000) + 1)))
	amt := amount(c)
	return &Op{Name: "stakerec-v", Desc: fmt.Sprintf("AddStakingRecord v=%s tx=%s val=%s", nm(v), nm(txh), amt), Foot: []string{"srec:" + nm(v)},
		Apply: func(st *state.StateDB) string {
			st.AddStakingRecord(common.Address{}, v, txh, amt)
			return ""
		}}
}

// ---- end-of-block operations (staking EndBlock): never inside a snapshot window ----

var penaltyTo = common.BytesToAddress([]byte{0xee, 0x01})

// GenEndBlock draws one operation of the kind the staking module performs in EndBlock, after
// the last transaction of a block and before the block's IntermediateRoot. None of them is
// ever reverted in production and some are not journalled at all (statistics' reward pools,
// in-place edits of withdraw records), so C09 does not use them.
func (m *Mutator) GenEndBlock(st *state.StateDB) *Op {
	c := m.r.C
	switch c.Weighted("endblock-op", []int{4, 4, 3, 3, 3, 3, 2}) {
	case 0:
		return m.genUpdateValidatorsInPlace(st)
	case 1:
		return m.genUpdateValidatorCopy(st)
	case 2:
		return m.genPenalty(st)
	case 3:
		return m.genStatRewards(st)
	case 4:
		return m.genProcessQueue(st)
	case 5:
		return m.genUpdateDelegation(st)
	default:
		return m.genRecoverExpelled(st)
	}
}

// genPenalty imitates doPenalize/takePenalty (slash.go:346-369, 372-500): first from the
// validator's unfinished withdraw records (edited in place), then from the self deposit and from
// every delegation (the delegation entries of the PartialCopy are edited in place and put back
// with UpdateDelegationFrom), status offline + expelled, UpdateValidator(newVal, val), and the
// total credited to the penalty account. The amounts are a percentage of each component (the
// protocol's fractions are 1 % and 2 %), so no component is emptied; Token/Stake are adjusted
// by exactly what each component loses, as takePenalty's updateCounter does.
func (m *Mutator) genPenalty(st *state.StateDB) *Op {
	c := m.r.C
	vals := existingValidators(st)
	if len(vals) == 0 {
		return noop("penalty-none")
	}
	addr := vals[c.Intn("which", len(vals))].MainAddress()
	pct := int64([]int{1, 2, 10, 50}[c.Intn("pct", 4)])
	h := m.height
	return &Op{Name: "penalty", Desc: fmt.Sprintf("Penalty %s %d%%", nm(addr), pct), Foot: []string{valKeyOf(addr), "queue", acctKey(penaltyTo)},
		Apply: func(st *state.StateDB) string {
			val := st.GetValidatorByMainAddr(addr)
			if val == nil {
				return "none"
			}
			total := new(big.Int)
			part := func(x *big.Int) *big.Int {
				return new(big.Int).Div(new(big.Int).Mul(x, big.NewInt(pct)), big.NewInt(100))
			}
			for _, rec := range st.GetWithdrawQueue().Records {
				if rec.Validator != addr || rec.Finished != 0 {
					continue
				}
				p := part(rec.FinalBalance)
				rec.FinalBalance.Sub(rec.FinalBalance, p)
				total.Add(total, p)
			}
			nv := val.PartialCopy()
			take := func(tok, stk *big.Int) {
				p := part(tok)
				if p.Sign() == 0 {
					return
				}
				newTok := new(big.Int).Sub(tok, p)
				newStk := params.YOUToStake(newTok)
				delta := new(big.Int).Sub(stk, newStk)
				tok.Set(newTok)
				stk.Set(newStk)
				nv.Token.Sub(nv.Token, p)
				nv.Stake.Sub(nv.Stake, delta)
				total.Add(total, p)
			}
			take(nv.SelfToken, nv.SelfStake)
			var upd []*state.DelegationFrom
			for _, d := range nv.Delegations {
				before := new(big.Int).Set(d.Token)
				take(d.Token, d.Stake)
				if before.Cmp(d.Token) != 0 {
					upd = append(upd, d)
				}
			}
			for _, d := range upd {
				nv.UpdateDelegationFrom(d)
			}
			nv.Status = params.ValidatorOffline
			nv.Expelled = true
			if e := h + 10; e > nv.ExpelExpired {
				nv.ExpelExpired = e
			}
			nv.LastInactive = h
			st.UpdateValidator(nv, val)
			st.AddBalance(penaltyTo, total)
			return fmt.Sprintf("applied total=%s tok=%s stake=%s", total, nv.Token, nv.Stake)
		}}
}

// genRecoverExpelled imitates recoverFromExpiredExpelling (slash_youv5.go:57-63).
func (m *Mutator) genRecoverExpelled(st *state.StateDB) *Op {
	return &Op{Name: "recover", Desc: "RecoverExpelled (in-place, all expelled)", Foot: []string{"val:*"},
		Apply: func(st *state.StateDB) string {
			n := 0
			for _, val := range st.GetValidatorsForUpdate() {
				if !val.Expelled {
					continue
				}
				old := val.PartialCopy()
				val.Expelled = false
				val.ExpelExpired = 0
				st.UpdateValidator(val, old)
				n++
			}
			return fmt.Sprintf("n=%d", n)
		}}
}

// genStatRewards imitates rewardsToPool / distributeRewards (endblock.go:143-236, 343-357): the
// reward pools kept inside the statistics object are edited directly (no journal).
func (m *Mutator) genStatRewards(st *state.StateDB) *Op {
	c := m.r.C
	role := params.ValidatorRole(1 + c.Intn("role", 3))
	kind := c.Intn("statrew-kind", 3)
	amt := amount(c)
	return &Op{Name: fmt.Sprintf("statrew%d", kind), Desc: fmt.Sprintf("StatRewards kind=%d role=%d amt=%s", kind, role, amt), Foot: []string{"statrew"},
		Apply: func(st *state.StateDB) string {
			stat, err := st.GetValidatorsStat()
			if err != nil {
				return "err"
			}
			switch kind {
			case 0:
				stat.GetByRole(role).AddRewards(amt)
			case 1:
				stat.GetByKind(params.KindValidator).SetRewardsResidue(amt)
			case 2:
				stat.GetByRole(role).ResetRewards(amt)
			}
			return ""
		}}
}

// genProcessQueue imitates processWithdrawQueue (endblock.go:488-545): matured records are
// marked finished in place and paid out, finished ones beyond retention are removed.
func (m *Mutator) genProcessQueue(st *state.StateDB) *Op {
	c := m.r.C
	q := st.GetWithdrawQueue()
	if q == nil || q.Len() == 0 {
		return noop("procq-none")
	}
	n := q.Len()
	finish := make([]bool, n)
	discard := make([]bool, n)
	foot := []string{"queue"}
	for i, rec := range q.Records {
		finish[i] = c.Chance("finish", 1, 2)
		discard[i] = c.Chance("discard", 1, 2)
		if finish[i] {
			foot = append(foot, acctKey(rec.Recipient))
		}
	}
	sort.Strings(foot)
	return &Op{Name: "procq", Desc: fmt.Sprintf("ProcessWithdrawQueue finish=%v discard=%v", finish, discard), Foot: uniq(foot),
		Apply: func(st *state.StateDB) string {
			q := st.GetWithdrawQueue()
			var rm []int
			for i, rec := range q.Records {
				if i >= n {
					break
				}
				if finish[i] && rec.Finished == 0 {
					rec.Finished = 1
					st.AddBalance(rec.Recipient, new(big.Int).Set(rec.FinalBalance))
				}
				if rec.Finished == 1 && discard[i] {
					rm = append(rm, i)
				}
			}
			if len(rm) > 0 {
				st.RemoveWithdrawRecords(rm)
			}
			return fmt.Sprintf("removed=%d", len(rm))
		}}
}

func uniq(s []string) []string {
	out := s[:0]
	for i, x := range s {
		if i == 0 || x != s[i-1] {
			out = append(out, x)
		}
	}
	return out
}
