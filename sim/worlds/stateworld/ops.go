package stateworld

import (
	"fmt"
	"math/big"

	"verifsim/kit"

	"github.com/youchainhq/go-youchain/common"
	"github.com/youchainhq/go-youchain/core/state"
	"github.com/youchainhq/go-youchain/core/types"
	"github.com/youchainhq/go-youchain/crypto"
	"github.com/youchainhq/go-youchain/params"
)

// Mutator applies seeded mutations to a StateDB using only the call patterns production code
// uses. Each generator names the call site it imitates.
type Mutator struct {
	r         *kit.Run
	wdNonce   uint64 // unique (operator, nonce) identity for withdraw records, as tx nonces are
	height    uint64
	preimageN int
	// AllowStakingRecords enables AddStakingRecord/AddPendingRelationship. They are not
	// journalled by design (production never reverts across them), so C09 keeps them outside
	// snapshot..revert windows.
	AllowStakingRecords bool
	// ValidatorWeight scales how often validator-side mutations are drawn (0 = never).
	ValidatorWeight int
}

func tokens(n int64) *big.Int { return new(big.Int).Mul(big.NewInt(n), params.StakeUint) }

func amount(c *kit.Chooser) *big.Int {
	switch c.Intn("amt-kind", 4) {
	case 0:
		return big.NewInt(int64(c.Intn("amt", 1000)))
	case 1:
		return big.NewInt(0)
	case 2:
		return tokens(int64(1 + c.Intn("amt-tokens", 2000)))
	default:
		// tokens plus dust, so that token/StakeUint rounding matters
		return new(big.Int).Add(tokens(int64(c.Intn("amt-tokens", 3000))), big.NewInt(int64(c.Intn("dust", 1000))))
	}
}

func pickAddr(c *kit.Chooser) common.Address {
	i := c.Intn("addr", len(universe))
	return universe[i]
}

// pickContractish picks an address for operations only contracts / fresh accounts undergo
// (nonce rewrites, code, suicide, re-creation, balance overwrite). Delegator accounts are
// externally owned accounts that have sent a transaction: their nonce never decreases and
// they are never self-destructed or re-created, so those operations are not applied to them.
func pickContractish(c *kit.Chooser) common.Address {
	return accounts[c.Intn("addr", len(accounts))]
}

// existingValidators returns the live validators in index order.
func existingValidators(st *state.StateDB) []*state.Validator {
	return st.GetValidatorsForUpdate()
}

// Step applies one mutation and returns its abstract name (for fingerprints).
func (m *Mutator) Step(st *state.StateDB) string {
	c := m.r.C
	vw := m.ValidatorWeight
	weights := []int{
		10, // 0 AddBalance
		6,  // 1 SubBalance
		3,  // 2 SetBalance
		5,  // 3 SetNonce
		4,  // 4 SetCode
		10, // 5 SetState
		3,  // 6 Suicide
		3,  // 7 CreateAccount
		4,  // 8 AddLog
		3,  // 9 refund
		2,  // 10 preimage
		3 * vw, // 11 CreateValidator
		6 * vw, // 12 update (PartialCopy + UpdateValidator)
		3 * vw, // 13 in-place update of GetValidatorsForUpdate entries
		5 * vw, // 14 UpdateDelegation
		3 * vw, // 15 AddWithdrawRecord
		2 * vw, // 16 RemoveWithdrawRecords
		0,      // 17 staking record
	}
	if m.AllowStakingRecords {
		weights[17] = 3
	}
	op := c.Weighted("op", weights)
	switch op {
	case 0:
		a, v := pickAddr(c), amount(c)
		st.AddBalance(a, v)
		m.r.Logf("AddBalance %s %s", nm(a), v)
		return "addbal"
	case 1:
		a := pickAddr(c)
		bal := st.GetBalance(a)
		v := amount(c)
		if v.Cmp(bal) > 0 {
			v = new(big.Int).Set(bal)
		}
		st.SubBalance(a, v)
		m.r.Logf("SubBalance %s %s", nm(a), v)
		return "subbal"
	case 2:
		// (SetBalance has no production caller outside genesis; balances move by Add/Sub)
		a, v := pickAddr(c), amount(c)
		st.AddBalance(a, v)
		m.r.Logf("AddBalance %s %s", nm(a), v)
		return "addbal"
	case 3:
		// nonces only ever advance by one (state_transition.go, evm.go:336)
		a := pickContractish(c)
		n := st.GetNonce(a) + 1
		st.SetNonce(a, n)
		m.r.Logf("SetNonce %s %d", nm(a), n)
		return "setnonce"
	case 4:
		// code is set once, on an account under construction (evm.go:371-380)
		a := pickContractish(c)
		if st.GetNonce(a) == 0 || st.GetCodeSize(a) != 0 {
			return "setcode-skip"
		}
		code := codes[1+c.Intn("code", len(codes)-1)]
		st.SetCode(a, code)
		m.r.Logf("SetCode %s %x", nm(a), code)
		return "setcode"
	case 5:
		// SSTORE runs in the context of a contract or of an account under construction
		a := pickContractish(c)
		if st.GetNonce(a) == 0 && st.GetCodeSize(a) == 0 {
			return "setstate-skip"
		}
		k := common.BigToHash(big.NewInt(int64(c.Intn("slot", nSlots))))
		v := common.BigToHash(big.NewInt(int64(c.Intn("val", 4))))
		st.SetState(a, k, v)
		m.r.Logf("SetState %s %s=%s", nm(a), k.Hex()[60:], v.Hex()[60:])
		return "setstate"
	case 6:
		a := pickContractish(c)
		ok := st.Suicide(a)
		m.r.Logf("Suicide %s -> %v", nm(a), ok)
		return "suicide"
	case 7:
		// EVM create (evm.go:338-347): refused on collision, else CreateAccount + SetNonce(1)
		a := pickContractish(c)
		if ch := st.GetCodeHash(a); st.GetNonce(a) != 0 || (ch != (common.Hash{}) && ch != emptyCodeHash) {
			return "createacct-collision"
		}
		st.CreateAccount(a)
		st.SetNonce(a, 1)
		m.r.Logf("CreateAccount+SetNonce(1) %s", nm(a))
		return "createacct"
	case 8:
		a := pickAddr(c)
		st.AddLog(&types.Log{Address: a, Topics: []common.Hash{common.BigToHash(big.NewInt(int64(c.Intn("topic", 3))))}, Data: []byte{byte(c.Intn("logdata", 256))}, BlockNumber: m.height})
		m.r.Logf("AddLog %s", nm(a))
		return "addlog"
	case 9:
		if c.Chance("subrefund", 1, 3) && st.GetRefund() > 0 {
			g := uint64(c.Intn("g", int(st.GetRefund())+1))
			st.SubRefund(g)
			m.r.Logf("SubRefund %d", g)
			return "subrefund"
		}
		g := uint64(c.Intn("g", 5000))
		st.AddRefund(g)
		m.r.Logf("AddRefund %d", g)
		return "addrefund"
	case 10:
		m.preimageN++
		p := []byte(fmt.Sprintf("preimage-%d", c.Intn("pre", 4)))
		st.AddPreimage(crypto.Keccak256Hash(p), p)
		m.r.Logf("AddPreimage %s", p)
		return "preimage"
	case 11:
		return m.createValidator(st)
	case 12:
		return m.updateValidatorCopy(st)
	case 13:
		return m.updateValidatorsInPlace(st)
	case 14:
		return m.updateDelegation(st)
	case 15:
		return m.addWithdraw(st)
	case 16:
		return m.removeWithdraw(st)
	case 17:
		return m.stakingRecord(st)
	}
	return "noop"
}

// createValidator imitates teCreate (staking/take_effect_handler.go:83) and genesis (core/genesis.go:269).
func (m *Mutator) createValidator(st *state.StateDB) string {
	c := m.r.C
	k := valKeys[c.Intn("valkey", len(valKeys))]
	role := params.ValidatorRole(1 + c.Intn("role", 3))
	tok := tokens(int64(1 + c.Intn("tokens", 3000)))
	status := params.ValidatorOffline
	if c.Chance("online", 1, 2) {
		status = params.ValidatorOnline
	}
	v := st.CreateValidator(fmt.Sprintf("v%x", k.addr[:2]), accounts[c.Intn("op", len(accounts))], accounts[c.Intn("cb", len(accounts))], role, k.pub, k.bls, tok, params.YOUToStake(tok), uint16(c.Intn("accept", 2)), uint16(c.Intn("comm", 10001)), uint16(c.Intn("risk", 10001)), status)
	m.r.Logf("CreateValidator %s role=%d tok=%s status=%d -> created=%v", nm(k.addr), role, tok, status, v != nil)
	if v == nil {
		return "createval-exists"
	}
	return "createval"
}

// updateValidatorCopy imitates the `old := Get…; newVal := old.PartialCopy(); …;
// UpdateValidator(newVal, old)` pattern of teUpdate/teDeposit/teWithdraw/teChangeStatus
// (take_effect_handler.go:91-213), settleValidatorRewards and slash (endblock.go:331,421,480; slash.go:351).
func (m *Mutator) updateValidatorCopy(st *state.StateDB) string {
	c := m.r.C
	vals := existingValidators(st)
	if len(vals) == 0 {
		return "updval-none"
	}
	old := st.GetValidatorByMainAddr(vals[c.Intn("which", len(vals))].MainAddress())
	if old == nil {
		return "updval-none"
	}
	nv := old.PartialCopy()
	kind := c.Intn("updkind", 7)
	switch kind {
	case 0: // deposit (teDeposit)
		v := amount(c)
		nv.SelfToken.Add(nv.SelfToken, v)
		ns := params.YOUToStake(nv.SelfToken)
		delta := new(big.Int).Sub(ns, nv.SelfStake)
		nv.SelfStake.Set(ns)
		nv.Token.Add(nv.Token, v)
		nv.Stake.Add(nv.Stake, delta)
	case 1: // withdraw (teWithdraw), possibly everything
		w := amount(c)
		if w.Cmp(nv.SelfToken) > 0 || c.Chance("all", 1, 4) {
			w = new(big.Int).Set(nv.SelfToken)
		}
		nv.SelfToken.Sub(nv.SelfToken, w)
		ns := params.YOUToStake(nv.SelfToken)
		delta := new(big.Int).Sub(nv.SelfStake, ns)
		nv.SelfStake.Set(ns)
		nv.Token.Sub(nv.Token, w)
		nv.Stake.Sub(nv.Stake, delta)
		if c.Chance("force-offline", 1, 3) {
			nv.Status = params.ValidatorOffline
		}
	case 2: // status (teChangeStatus)
		if nv.Status == params.ValidatorOnline {
			nv.Status = params.ValidatorOffline
		} else {
			nv.Status = params.ValidatorOnline
		}
		nv.UpdateLastActive(m.height)
	case 3: // descriptive fields (teUpdate)
		nv.Name = fmt.Sprintf("n%d", c.Intn("name", 4))
		nv.Coinbase = accounts[c.Intn("cb", len(accounts))]
		nv.CommissionRate = uint16(c.Intn("comm", 10001))
		nv.AcceptDelegation = uint16(c.Intn("accept", 2))
	case 4: // rewards (endblock.go:188-211)
		nv.AddTotalRewards(amount(c))
	case 5: // settle (endblock.go:421)
		nv.RewardsDistributable = new(big.Int)
		nv.RewardsLastSettled = m.height
	case 6: // penalty (slash.go:346-369): expel and set offline
		nv.Expelled = true
		nv.ExpelExpired = m.height + 10
		nv.Status = params.ValidatorOffline
		nv.LastInactive = m.height
	}
	ok := st.UpdateValidator(nv, old)
	m.r.Logf("UpdateValidator(copy) %s kind=%d tok=%s stake=%s status=%d -> %v", nm(old.MainAddress()), kind, nv.Token, nv.Stake, nv.Status, ok)
	return fmt.Sprintf("updval%d", kind)
}

// updateValidatorsInPlace imitates `all := GetValidatorsForUpdate(); old := val.PartialCopy();
// mutate val; UpdateValidator(val, old)` (endblock.go:130-135, slash_youv5.go:50-67).
func (m *Mutator) updateValidatorsInPlace(st *state.StateDB) string {
	c := m.r.C
	all := st.GetValidatorsForUpdate()
	n := 0
	for _, val := range all {
		if !c.Chance("touch", 1, 2) {
			continue
		}
		old := val.PartialCopy()
		switch c.Intn("inplace-kind", 3) {
		case 0:
			val.UpdateLastActive(m.height)
		case 1:
			if val.Status == params.ValidatorOnline {
				val.Status = params.ValidatorOffline
				val.LastInactive = m.height
			}
		case 2:
			val.AddTotalRewards(amount(c))
		}
		st.UpdateValidator(val, old)
		n++
	}
	m.r.Logf("UpdateValidator(in-place) n=%d", n)
	return "updinplace"
}

// updateDelegation imitates teDelegationAdd/teDelegationSub (take_effect_handler.go:264,314).
// The delegator is an account that has sent a transaction (nonce >= 1), as in production.
func (m *Mutator) updateDelegation(st *state.StateDB) string {
	c := m.r.C
	vals := existingValidators(st)
	if len(vals) == 0 {
		return "deleg-none"
	}
	val := st.GetValidatorByMainAddr(vals[c.Intn("which", len(vals))].MainAddress())
	if val == nil {
		return "deleg-none"
	}
	d := delegators[c.Intn("delegator", len(delegators))]
	if st.GetNonce(d) == 0 {
		st.SetNonce(d, 1)
	}
	var delta *big.Int
	if df := val.GetDelegationFrom(d); df != nil && c.Chance("sub", 1, 2) {
		w := amount(c)
		if w.Cmp(df.Token) > 0 || c.Chance("all", 1, 3) {
			w = new(big.Int).Set(df.Token)
		}
		delta = new(big.Int).Neg(w)
	} else {
		delta = tokens(int64(1 + c.Intn("dtokens", 500)))
	}
	nv, _, _, flag := st.UpdateDelegation(d, val, delta)
	m.r.Logf("UpdateDelegation %s -> %s delta=%s flag=%d tok=%s", nm(d), nm(val.MainAddress()), delta, flag, nv.Token)
	return fmt.Sprintf("deleg%d", flag)
}

// addWithdraw imitates addWithdrawLog (take_effect_handler.go:327-350).
func (m *Mutator) addWithdraw(st *state.StateDB) string {
	c := m.r.C
	m.wdNonce++
	rec := state.NewWithdrawRecord()
	rec.Operator = accounts[c.Intn("op", len(accounts))]
	rec.Nonce = m.wdNonce
	rec.Validator = valKeys[c.Intn("valkey", len(valKeys))].addr
	rec.Recipient = accounts[c.Intn("rcpt", len(accounts))]
	v := amount(c)
	rec.InitialBalance = new(big.Int).Set(v)
	rec.FinalBalance = new(big.Int).Set(v)
	rec.CreationHeight = m.height
	rec.CompletionHeight = m.height + uint64(c.Intn("delay", 5))
	rec.TxHash = common.BigToHash(big.NewInt(int64(m.wdNonce)))
	st.AddWithdrawRecord(rec)
	m.r.Logf("AddWithdrawRecord op=%s nonce=%d amt=%s", nm(rec.Operator), rec.Nonce, v)
	return "addwd"
}

// removeWithdraw imitates processWithdrawQueue (endblock.go:544): ascending index list.
func (m *Mutator) removeWithdraw(st *state.StateDB) string {
	c := m.r.C
	q := st.GetWithdrawQueue()
	if q == nil || q.Len() == 0 {
		return "rmwd-none"
	}
	var idx []int
	for i := 0; i < q.Len(); i++ {
		if c.Chance("rm", 1, 2) {
			idx = append(idx, i)
		}
	}
	if len(idx) == 0 {
		return "rmwd-none"
	}
	st.RemoveWithdrawRecords(idx)
	m.r.Logf("RemoveWithdrawRecords %v", idx)
	return "rmwd"
}

// stakingRecord imitates the staking handlers (handler.go:94,194; delegation_handler.go:100,198).
func (m *Mutator) stakingRecord(st *state.StateDB) string {
	c := m.r.C
	v := valKeys[c.Intn("valkey", len(valKeys))].addr
	if c.Chance("delegation-record", 1, 2) {
		d := delegators[c.Intn("delegator", len(delegators))]
		if !st.PendingRelationshipExist(d, v) {
			st.AddPendingRelationship(d, v)
		}
		st.AddStakingRecord(d, v, common.BigToHash(big.NewInt(int64(c.Intn("txh", 1000)+1))), amount(c))
		m.r.Logf("AddStakingRecord d=%s v=%s", nm(d), nm(v))
		return "stakerec-d"
	}
	st.AddStakingRecord(common.Address{}, v, common.BigToHash(big.NewInt(int64(c.Intn("txh", 1000)+1))), amount(c))
	m.r.Logf("AddStakingRecord v=%s", nm(v))
	return "stakerec-v"
}
