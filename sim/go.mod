module verifsim

go 1.26.8

require github.com/youchainhq/go-youchain v0.0.0

require (
	github.com/go-stack/stack v1.8.0 // indirect
	github.com/golang/snappy v0.0.1 // indirect
	github.com/hashicorp/golang-lru v0.5.0 // indirect
	github.com/mattn/go-colorable v0.0.9 // indirect
	github.com/mattn/go-isatty v0.0.9 // indirect
	github.com/nanyan/golz4 v1.0.0 // indirect
	github.com/syndtr/goleveldb v1.0.0 // indirect
	golang.org/x/sys v0.0.0-20190904154756-749cb33beabd // indirect
	gopkg.in/karalabe/cookiejar.v2 v2.0.0-20150724131613-8dcd6a7f4951 // indirect
	gopkg.in/natefinch/lumberjack.v2 v2.0.0-20170531160350-a96e63847dc3 // indirect
)

replace github.com/youchainhq/go-youchain => /repo

replace github.com/lucas-clemente/quic-go => ./third_party/quicstub
