// Package simdisk is the simulated disk: a youdb.Database over a map with a write log in
// which one Put, one Delete or one Batch.Write is one atomic entry. It gives the crash model
// the properties state (the process dies; completed puts and whole batches survive; nothing
// is torn inside a batch): Freeze (writes swallowed from now on), CrashAt(k) (freeze when the
// log reaches length k), Prefix(k) (the durable image had the process died after k writes).
package simdisk

import (
	"errors"
	"sort"
	"sync"

	"github.com/youchainhq/go-youchain/youdb"
)

// ErrNotFound mirrors what the in-memory database of the repository returns.
var ErrNotFound = errors.New("not found")

type op struct {
	k   string
	v   []byte
	del bool
}

// Entry is one atomic write-log entry.
type Entry struct{ ops []op }

// Disk implements youdb.Database.
type Disk struct {
	mu      sync.Mutex
	base    map[string][]byte // image before log entry 0
	cur     map[string][]byte
	log     []Entry
	frozen  bool
	crashAt int // freeze when len(log) reaches this (-1 = never)
	keepLog bool

	// OnWrite, if set, is called (with the lock held) after every applied entry with the
	// new log length; used for monitors. Must not call back into the disk.
	OnWrite func(n int)
	// FailAfter = k makes the k-th write from now fail once with an error (a transient disk
	// error: nothing is applied for that write, later writes succeed); 0 = off.
	FailAfter int
	// CrashMatch, when set, places a crash at the first write touching a key it accepts:
	// before the write (lost) when CrashMatchBefore is set, right after it (durable) otherwise.
	CrashMatch       func(key string) bool
	CrashMatchBefore bool
	// Swallowed counts writes dropped because the disk was frozen.
	Swallowed int
	// FailNext makes the next n write calls return an error without applying (error injection).
	FailNext int
}

// New returns an empty disk that keeps a write log.
func New() *Disk {
	return &Disk{base: map[string][]byte{}, cur: map[string][]byte{}, crashAt: -1, keepLog: true}
}

// NewNoLog returns an empty disk without a write log (cheaper for long runs).
func NewNoLog() *Disk {
	return &Disk{base: nil, cur: map[string][]byte{}, crashAt: -1}
}

var _ youdb.Database = (*Disk)(nil)

func (d *Disk) apply(e Entry) error {
	if d.FailNext > 0 {
		d.FailNext--
		return errors.New("simdisk: injected write error")
	}
	if d.FailAfter > 0 {
		d.FailAfter--
		if d.FailAfter == 0 {
			return errors.New("simdisk: injected write error")
		}
	}
	if d.frozen {
		d.Swallowed++
		return nil
	}
	matched := false
	if d.CrashMatch != nil {
		for _, o := range e.ops {
			if d.CrashMatch(o.k) {
				matched = true
				break
			}
		}
		if matched && d.CrashMatchBefore {
			// the process dies before this write: it is lost
			d.frozen = true
			d.Swallowed++
			return nil
		}
	}
	for _, o := range e.ops {
		if o.del {
			delete(d.cur, o.k)
		} else {
			d.cur[o.k] = o.v
		}
	}
	if d.keepLog {
		d.log = append(d.log, e)
	}
	if d.crashAt >= 0 && d.keepLog && len(d.log) >= d.crashAt {
		d.frozen = true
	}
	if matched {
		// the process dies right after this write became durable
		d.frozen = true
	}
	if d.OnWrite != nil {
		d.OnWrite(len(d.log))
	}
	return nil
}

func (d *Disk) Put(key, value []byte) error {
	d.mu.Lock()
	defer d.mu.Unlock()
	return d.apply(Entry{ops: []op{{k: string(key), v: append([]byte(nil), value...)}}})
}

func (d *Disk) Delete(key []byte) error {
	d.mu.Lock()
	defer d.mu.Unlock()
	return d.apply(Entry{ops: []op{{k: string(key), del: true}}})
}

func (d *Disk) Get(key []byte) ([]byte, error) {
	d.mu.Lock()
	defer d.mu.Unlock()
	if v, ok := d.cur[string(key)]; ok {
		return append([]byte(nil), v...), nil
	}
	return nil, ErrNotFound
}

func (d *Disk) Has(key []byte) (bool, error) {
	d.mu.Lock()
	defer d.mu.Unlock()
	_, ok := d.cur[string(key)]
	return ok, nil
}

func (d *Disk) Close() {}

func (d *Disk) NewBatch() youdb.Batch { return &batch{d: d} }

type batch struct {
	d    *Disk
	ops  []op
	size int
}

func (b *batch) Put(key, value []byte) error {
	b.ops = append(b.ops, op{k: string(key), v: append([]byte(nil), value...)})
	b.size += len(value)
	return nil
}

func (b *batch) Delete(key []byte) error {
	b.ops = append(b.ops, op{k: string(key), del: true})
	b.size++
	return nil
}

func (b *batch) ValueSize() int { return b.size }

func (b *batch) Write() error {
	if len(b.ops) == 0 {
		return nil
	}
	b.d.mu.Lock()
	defer b.d.mu.Unlock()
	return b.d.apply(Entry{ops: append([]op(nil), b.ops...)})
}

func (b *batch) Reset() { b.ops = b.ops[:0]; b.size = 0 }

// Freeze swallows all writes from now on: the process is dead as far as the disk is concerned.
func (d *Disk) Freeze() {
	d.mu.Lock()
	d.frozen = true
	d.mu.Unlock()
}

// Frozen reports whether the disk is frozen.
func (d *Disk) Frozen() bool {
	d.mu.Lock()
	defer d.mu.Unlock()
	return d.frozen
}

// CrashAt freezes the disk automatically when the log reaches length k (-1 disables).
func (d *Disk) CrashAt(k int) {
	d.mu.Lock()
	d.crashAt = k
	if k >= 0 && len(d.log) >= k {
		d.frozen = true
	}
	d.mu.Unlock()
}

// LogLen is the number of atomic writes applied so far.
func (d *Disk) LogLen() int {
	d.mu.Lock()
	defer d.mu.Unlock()
	return len(d.log)
}

// Restart returns a fresh, unfrozen disk holding exactly the durable content of d (what a
// new process would find). The new disk starts an empty log on top of that image.
func (d *Disk) Restart() *Disk {
	d.mu.Lock()
	defer d.mu.Unlock()
	img := make(map[string][]byte, len(d.cur))
	for k, v := range d.cur {
		img[k] = v
	}
	base := make(map[string][]byte, len(img))
	for k, v := range img {
		base[k] = v
	}
	return &Disk{base: base, cur: img, crashAt: -1, keepLog: d.keepLog}
}

// Prefix returns a fresh disk holding the base image plus log entries [0,k): the durable
// state had the process been killed after the k-th write.
func (d *Disk) Prefix(k int) *Disk {
	d.mu.Lock()
	defer d.mu.Unlock()
	if k > len(d.log) {
		k = len(d.log)
	}
	img := make(map[string][]byte, len(d.base)+k)
	for kk, v := range d.base {
		img[kk] = v
	}
	for _, e := range d.log[:k] {
		for _, o := range e.ops {
			if o.del {
				delete(img, o.k)
			} else {
				img[o.k] = o.v
			}
		}
	}
	base := make(map[string][]byte, len(img))
	for kk, v := range img {
		base[kk] = v
	}
	return &Disk{base: base, cur: img, crashAt: -1, keepLog: true}
}

// Rebase makes the current content the new base image and clears the log (so that Prefix
// indexes are relative to "now").
func (d *Disk) Rebase() {
	d.mu.Lock()
	defer d.mu.Unlock()
	d.base = make(map[string][]byte, len(d.cur))
	for k, v := range d.cur {
		d.base[k] = v
	}
	d.log = nil
}

// EntryKeys returns the keys written by log entry i (for monitors and diagnostics).
func (d *Disk) EntryKeys(i int) (keys []string, dels []bool) {
	d.mu.Lock()
	defer d.mu.Unlock()
	for _, o := range d.log[i].ops {
		keys = append(keys, o.k)
		dels = append(dels, o.del)
	}
	return
}

// EntryOps calls f for every op of log entry i.
func (d *Disk) EntryOps(i int, f func(key string, val []byte, del bool)) {
	d.mu.Lock()
	e := d.log[i]
	d.mu.Unlock()
	for _, o := range e.ops {
		f(o.k, o.v, o.del)
	}
}

// Keys returns all keys in sorted order (never map order).
func (d *Disk) Keys() []string {
	d.mu.Lock()
	defer d.mu.Unlock()
	ks := make([]string, 0, len(d.cur))
	for k := range d.cur {
		ks = append(ks, k)
	}
	sort.Strings(ks)
	return ks
}

// Len is the number of stored keys.
func (d *Disk) Len() int {
	d.mu.Lock()
	defer d.mu.Unlock()
	return len(d.cur)
}

// Equal reports whether two disks hold identical content.
func (d *Disk) Equal(o *Disk) bool {
	a, b := d.Keys(), o.Keys()
	if len(a) != len(b) {
		return false
	}
	for i := range a {
		if a[i] != b[i] {
			return false
		}
		va, _ := d.Get([]byte(a[i]))
		vb, _ := o.Get([]byte(b[i]))
		if string(va) != string(vb) {
			return false
		}
	}
	return true
}
