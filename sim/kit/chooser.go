// Package kit is the shared core of the deterministic simulator: the chooser (the single
// source of every decision of a run), traces, replay files, the shrinker, the batch runner
// and the evidence writer.
package kit

import (
	"os"
	"encoding/binary"
	"hash/fnv"
	"math/rand/v2"
)

// Chooser is the only source of nondeterminism a world may use. Choice 0 is always the
// "boring" alternative (FIFO delivery, no fault, minimum delay, first generator branch), so
// a choice log of zeros is a fault-free in-order run and shrinking towards zeros removes
// faults and reorderings.
type Chooser struct {
	rng    *rand.Rand
	replay []uint32
	pos    int
	isRepl bool
	log    []uint32
	limit  int // maximum log length in generate mode (0 = unlimited); beyond it everything is 0
	// journal, when set, receives every choice the moment it is made (crash probe: the process
	// is expected to die before it can hand its log back)
	journal *os.File
}

func (c *Chooser) record(v uint32) {
	c.log = append(c.log, v)
	if c.journal != nil {
		var b [4]byte
		binary.LittleEndian.PutUint32(b[:], v)
		c.journal.Write(b[:])
	}
}

// SetJournal makes the chooser write every choice to f as it is made.
func (c *Chooser) SetJournal(f *os.File) { c.journal = f }

// NewGen returns a generating chooser seeded from (seed, stream).
func NewGen(seed uint64, stream uint64) *Chooser {
	return &Chooser{rng: rand.New(rand.NewPCG(mix(seed, stream), mix(stream, seed^0x9e3779b97f4a7c15)))}
}

// NewReplay returns a chooser that answers from a recorded log; past its end, or where a
// recorded entry is out of range, the answer is 0.
func NewReplay(log []uint32) *Chooser {
	return &Chooser{replay: log, isRepl: true}
}

func mix(a, b uint64) uint64 {
	h := fnv.New64a()
	var buf [16]byte
	binary.LittleEndian.PutUint64(buf[:8], a)
	binary.LittleEndian.PutUint64(buf[8:], b)
	h.Write(buf[:])
	x := h.Sum64()
	x ^= x >> 31
	x *= 0xbf58476d1ce4e5b9
	x ^= x >> 29
	return x
}

// Log returns the choices made so far (the replay file's payload).
func (c *Chooser) Log() []uint32 { return c.log }

// Replaying reports whether answers come from a recorded log.
func (c *Chooser) Replaying() bool { return c.isRepl }

// Intn returns a value in [0,n). The label is documentation only; it never influences the
// value, so renaming labels does not invalidate replay files.
func (c *Chooser) Intn(label string, n int) int {
	if n <= 1 {
		return 0
	}
	var v int
	if c.isRepl {
		if c.pos < len(c.replay) {
			v = int(c.replay[c.pos])
			if v >= n || v < 0 {
				v = 0
			}
		}
		c.pos++
	} else {
		if c.limit > 0 && len(c.log) >= c.limit {
			v = 0
		} else {
			v = c.rng.IntN(n)
		}
	}
	c.record(uint32(v))
	return v
}

// Chance returns true (the non-boring answer) with probability num/den.
func (c *Chooser) Chance(label string, num, den int) bool {
	if num <= 0 {
		return false
	}
	var v int
	if c.isRepl {
		if c.pos < len(c.replay) && c.replay[c.pos] != 0 {
			v = 1
		}
		c.pos++
	} else if c.limit > 0 && len(c.log) >= c.limit {
		v = 0
	} else if c.rng.IntN(den) < num {
		v = 1
	}
	c.record(uint32(v))
	return v == 1
}

// Weighted picks an index with probability proportional to weights; index 0 is the boring one.
func (c *Chooser) Weighted(label string, weights []int) int {
	total := 0
	for _, w := range weights {
		if w > 0 {
			total += w
		}
	}
	if total == 0 || len(weights) <= 1 {
		return 0
	}
	var v int
	if c.isRepl {
		if c.pos < len(c.replay) {
			v = int(c.replay[c.pos])
			if v >= len(weights) || weights[v] <= 0 {
				v = firstPositive(weights)
			}
		} else {
			v = firstPositive(weights)
		}
		c.pos++
	} else if c.limit > 0 && len(c.log) >= c.limit {
		v = firstPositive(weights)
	} else {
		r := c.rng.IntN(total)
		for i, w := range weights {
			if w <= 0 {
				continue
			}
			if r < w {
				v = i
				break
			}
			r -= w
		}
	}
	c.record(uint32(v))
	return v
}

func firstPositive(w []int) int {
	for i, x := range w {
		if x > 0 {
			return i
		}
	}
	return 0
}

// Range returns a value in [lo,hi] (inclusive); lo is the boring one.
func (c *Chooser) Range(label string, lo, hi int) int {
	if hi <= lo {
		return lo
	}
	return lo + c.Intn(label, hi-lo+1)
}

// Bytes returns n chooser-derived bytes (each one choice; keep n small).
func (c *Chooser) Bytes(label string, n int) []byte {
	b := make([]byte, n)
	for i := range b {
		b[i] = byte(c.Intn(label, 256))
	}
	return b
}

// Uint64 returns a chooser-derived 64-bit value built from 4 choices.
func (c *Chooser) Uint64(label string) uint64 {
	var x uint64
	for i := 0; i < 4; i++ {
		x = x<<16 | uint64(c.Intn(label, 1<<16))
	}
	return x
}

// Perm returns a permutation of [0,n); the identity is the boring one.
func (c *Chooser) Perm(label string, n int) []int {
	p := make([]int, n)
	for i := range p {
		p[i] = i
	}
	for i := 0; i < n-1; i++ {
		j := i + c.Intn(label, n-i)
		p[i], p[j] = p[j], p[i]
	}
	return p
}

// Stream is a deterministic byte stream derived from a seed; it implements io.Reader and is
// used to replace crypto/rand.Reader for the duration of a run. It is NOT part of the choice
// log: it is a pure function of the run's seed value, which is stored in the replay file.
type Stream struct{ rng *rand.Rand }

func NewStream(seed, stream uint64) *Stream {
	return &Stream{rng: rand.New(rand.NewPCG(mix(seed, stream^0x5151), mix(stream, seed^0xabcdef)))}
}

func (s *Stream) Read(p []byte) (int, error) {
	for i := range p {
		p[i] = byte(s.rng.Uint32())
	}
	return len(p), nil
}
