package kit

import (
	"encoding/json"
	"flag"
	"fmt"
	"os"
	"os/exec"
	"path/filepath"
	"sort"
	"strconv"
	"strings"
	"time"
)

// VerifDir is where MANIFEST.json, evidence/, replays/ and known-findings.json live.
func VerifDir() string {
	if d := os.Getenv("VERIF_DIR"); d != "" {
		return d
	}
	return "/verif"
}

func envSeed() uint64 {
	if s := os.Getenv("VERIF_SEED"); s != "" {
		if n, err := strconv.ParseUint(s, 10, 64); err == nil {
			return n
		}
		if n, err := strconv.ParseInt(s, 10, 64); err == nil {
			return uint64(n)
		}
	}
	return 1
}

// Main is the entry point of the vcheck binary.
func Main() {
	if len(os.Args) < 2 {
		fmt.Fprintln(os.Stderr, "usage: vcheck run|worker|replay|shrink|determinism|list ...")
		os.Exit(2)
	}
	switch os.Args[1] {
	case "list":
		for _, p := range Props() {
			for _, c := range Lookup(p) {
				fmt.Printf("%s/%s world=%s level=%s\n", p, c.Name, c.World, c.Level)
			}
		}
	case "worker":
		cmdWorker(os.Args[2:])
	case "run":
		os.Exit(cmdRun(os.Args[2:]))
	case "replay":
		os.Exit(cmdReplay(os.Args[2:]))
	case "crashprobe":
		cmdCrashProbe(os.Args[2:])
	case "determinism":
		os.Exit(cmdDeterminism(os.Args[2:]))
	case "digests":
		cmdDigests(os.Args[2:])
	case "trace":
		cmdTrace(os.Args[2:])
	default:
		fmt.Fprintln(os.Stderr, "unknown sub-command", os.Args[1])
		os.Exit(2)
	}
}

func cmdWorker(args []string) {
	fs := flag.NewFlagSet("worker", flag.ExitOnError)
	prop := fs.String("prop", "", "")
	part := fs.String("part", "", "")
	tier := fs.String("tier", "quick", "")
	seed := fs.Uint64("seed", 1, "")
	worker := fs.Int("worker", 0, "")
	of := fs.Int("of", 1, "")
	budget := fs.Duration("budget", time.Minute, "")
	maxRuns := fs.Uint64("maxruns", 0, "")
	samples := fs.Int("samples", 0, "")
	fs.Parse(args)
	ck := LookupPart(*prop, *part)
	if ck == nil {
		fmt.Fprintln(os.Stderr, "no such check", *prop, *part)
		os.Exit(2)
	}
	res := Worker(ck, *tier, *seed, *worker, *of, *budget, *maxRuns, *samples)
	b, _ := json.Marshal(res)
	fmt.Printf("\n%s\n", b)
}

// cmdCrashProbe executes one run in generate mode with a choice journal (see ProbeCrash).
func cmdCrashProbe(args []string) {
	fs := flag.NewFlagSet("crashprobe", flag.ExitOnError)
	prop := fs.String("prop", "", "")
	part := fs.String("part", "", "")
	tier := fs.String("tier", "quick", "")
	seed := fs.Uint64("seed", 1, "")
	index := fs.Uint64("index", 0, "")
	journal := fs.String("journal", "", "")
	fs.Parse(args)
	ck := LookupPart(*prop, *part)
	if ck == nil {
		fmt.Fprintln(os.Stderr, "no such check", *prop, *part)
		os.Exit(2)
	}
	f, err := os.OpenFile(*journal, os.O_WRONLY|os.O_TRUNC|os.O_CREATE, 0o644)
	if err != nil {
		fmt.Fprintln(os.Stderr, err)
		os.Exit(2)
	}
	c := NewGen(*seed, runStream(ck, *index))
	c.SetJournal(f)
	r := NewRun(ck.Prop, *tier, *seed, *index, c, false)
	fmt.Fprintf(os.Stderr, "RUN-START %d\n", *index)
	herr := Execute(ck, r)
	fmt.Printf("CRASHPROBE survived herr=%q violations=%d\n", herr, len(r.Violations))
}

// cmdDigests prints "index digest violations" for a range of runs (determinism self-test).
func cmdDigests(args []string) {
	fs := flag.NewFlagSet("digests", flag.ExitOnError)
	prop := fs.String("prop", "", "")
	part := fs.String("part", "", "")
	tier := fs.String("tier", "quick", "")
	seed := fs.Uint64("seed", 1, "")
	from := fs.Uint64("from", 0, "")
	n := fs.Uint64("n", 10, "")
	fs.Parse(args)
	ck := LookupPart(*prop, *part)
	if ck == nil {
		fmt.Fprintln(os.Stderr, "no such check")
		os.Exit(2)
	}
	for i := *from; i < *from+*n; i++ {
		r, herr := OneRun(ck, *tier, *seed, i, false)
		var cls []string
		for _, v := range r.Violations {
			cls = append(cls, v.Class)
		}
		fmt.Printf("DIGEST %d %s choices=%d fp=%x viol=%s herr=%v\n", i, r.Digest(), len(r.C.Log()), r.Fingerprint(), strings.Join(cls, ","), herr != "")
	}
}

// cmdTrace prints the full trace of one generated run (debugging aid).
func cmdTrace(args []string) {
	fs := flag.NewFlagSet("trace", flag.ExitOnError)
	prop := fs.String("prop", "", "")
	part := fs.String("part", "", "")
	tier := fs.String("tier", "quick", "")
	seed := fs.Uint64("seed", envSeed(), "")
	index := fs.Uint64("index", 0, "")
	fs.Parse(args)
	ck := LookupPart(*prop, *part)
	if ck == nil {
		fmt.Fprintln(os.Stderr, "no such check")
		os.Exit(2)
	}
	c := NewGen(*seed, runStream(ck, *index))
	r := NewRun(ck.Prop, *tier, *seed, *index, c, true)
	r.maxLines = 1 << 30
	herr := Execute(ck, r)
	for _, l := range r.Lines() {
		fmt.Println(l)
	}
	fmt.Printf("-- digest=%s choices=%d nontrivial=%v simtime=%v steps=%d herr=%q\n", r.Digest(), len(c.Log()), r.IsNontrivial(), r.SimTime, r.Steps, herr)
	var keys []string
	for k := range r.Stats {
		keys = append(keys, k)
	}
	sort.Strings(keys)
	for _, k := range keys {
		fmt.Printf("-- %s=%d\n", k, r.Stats[k])
	}
	for _, v := range r.Violations {
		fmt.Printf("-- VIOLATION %s: %s\n", v.Class, v.Detail)
	}
}

// cmdDeterminism runs the same run indices in several fresh processes under different
// GOMAXPROCS values (and once more inside a longer batch process, after other runs) and
// diffs the full trace digests.
func cmdDeterminism(args []string) int {
	fs := flag.NewFlagSet("determinism", flag.ExitOnError)
	prop := fs.String("prop", "", "")
	tier := fs.String("tier", "quick", "")
	seed := fs.Uint64("seed", envSeed(), "")
	n := fs.Uint64("n", 40, "")
	fs.Parse(args)
	self, _ := os.Executable()
	bad := 0
	for _, ck := range Lookup(*prop) {
		type cfg struct {
			procs string
			from  uint64
			n     uint64
		}
		cfgs := []cfg{{"1", 0, *n}, {"4", 0, *n}, {"16", 0, *n}, {"2", *n / 2, *n - *n/2}, {"8", 0, *n}}
		results := make([]map[uint64]string, len(cfgs))
		done := make(chan int, len(cfgs))
		for ci, c := range cfgs {
			go func(ci int, c cfg) {
				defer func() { done <- ci }()
				cmd := exec.Command(self, "digests", "-prop", ck.Prop, "-part", ck.Name, "-tier", *tier,
					"-seed", strconv.FormatUint(*seed, 10), "-from", strconv.FormatUint(c.from, 10), "-n", strconv.FormatUint(c.n, 10))
				cmd.Env = append(os.Environ(), "GOMAXPROCS="+c.procs)
				out, err := cmd.CombinedOutput()
				m := map[uint64]string{}
				if err != nil {
					fmt.Printf("determinism: process failed: %v\n%s\n", err, tail(string(out), 30))
				}
				for _, ln := range strings.Split(string(out), "\n") {
					if strings.HasPrefix(ln, "DIGEST ") {
						f := strings.SplitN(ln, " ", 3)
						idx, _ := strconv.ParseUint(f[1], 10, 64)
						m[idx] = f[2]
					}
				}
				results[ci] = m
			}(ci, c)
		}
		for range cfgs {
			<-done
		}
		distinct := map[string]bool{}
		for i := uint64(0); i < *n; i++ {
			ref := results[0][i]
			distinct[ref] = true
			for ci := 1; ci < len(cfgs); ci++ {
				got, ok := results[ci][i]
				if !ok {
					if i >= cfgs[ci].from && i < cfgs[ci].from+cfgs[ci].n {
						fmt.Printf("NONDETERMINISM %s/%s run %d: missing in config %d\n", ck.Prop, ck.Name, i, ci)
						bad++
					}
					continue
				}
				if got != ref {
					fmt.Printf("NONDETERMINISM %s/%s run %d: GOMAXPROCS=%s %q vs GOMAXPROCS=%s %q\n", ck.Prop, ck.Name, i, cfgs[0].procs, ref, cfgs[ci].procs, got)
					bad++
				}
			}
		}
		fmt.Printf("determinism %s/%s: %d runs x %d processes, %d distinct digests, %d mismatches\n", ck.Prop, ck.Name, *n, len(cfgs), len(distinct), bad)
	}
	if bad > 0 {
		return 1
	}
	return 0
}

func cmdReplay(args []string) int {
	if len(args) < 1 {
		fmt.Fprintln(os.Stderr, "usage: vcheck replay <file> [-v]")
		return 2
	}
	rf, err := ReadReplay(args[0])
	if err != nil {
		fmt.Fprintln(os.Stderr, err)
		return 2
	}
	verbose := len(args) > 1 && args[1] == "-v"
	ck := LookupPart(rf.Property, rf.Part)
	if ck == nil {
		fmt.Fprintln(os.Stderr, "no such check", rf.Property, rf.Part)
		return 2
	}
	r, herr := ReplayRun(ck, rf.Tier, rf.Seed, rf.Index, rf.Choices, true)
	if herr != "" {
		fmt.Println("REPLAY harness error:", herr)
		return 2
	}
	if verbose {
		for _, l := range r.Lines() {
			fmt.Println("  ", l)
		}
	}
	repro := r.HasClass(rf.Violation.Class)
	fmt.Printf("REPLAY reproduced=%v digest_match=%v class=%q digest=%s\n", repro, r.Digest() == rf.TraceDigest, rf.Violation.Class, r.Digest())
	for _, v := range r.Violations {
		fmt.Printf("  violation %s: %s\n", v.Class, v.Detail)
	}
	if repro {
		return 1
	}
	return 0
}

// Evidence is the JSON written to /verif/evidence/<id>.json.
type Evidence struct {
	PropertyID  string                 `json:"property_id"`
	Tier        string                 `json:"tier"`
	Seed        int64                  `json:"seed"`
	Level       string                 `json:"level"`
	Coverage    map[string]interface{} `json:"coverage"`
	Assumptions []string               `json:"assumptions"`
	WallS       float64                `json:"wall_s"`
	Violations  int                    `json:"violations"`
}

func cmdRun(args []string) int {
	fs := flag.NewFlagSet("run", flag.ExitOnError)
	prop := fs.String("prop", "", "property id")
	tier := fs.String("tier", os.Getenv("VERIF_TIER"), "quick|thorough")
	seedF := fs.Uint64("seed", envSeed(), "batch seed (default VERIF_SEED or 1)")
	budgetF := fs.Duration("budget", 0, "override wall-clock budget")
	workers := fs.Int("workers", NumWorkers(), "")
	noEvidence := fs.Bool("no-evidence", false, "do not write the evidence file")
	only := fs.String("part", "", "run only this part")
	fs.Parse(args)
	if *tier == "" {
		*tier = "quick"
	}
	parts := Lookup(*prop)
	if len(parts) == 0 {
		fmt.Fprintln(os.Stderr, "no check registered for", *prop)
		return 2
	}
	self, _ := os.Executable()
	start := time.Now()
	seed := *seedF
	fmt.Printf("vcheck property=%s tier=%s VERIF_SEED=%d workers=%d repo_rev=%s\n", *prop, *tier, seed, *workers, RepoRev())

	known, err := LoadFindings(filepath.Join(VerifDir(), "known-findings.json"))
	if err != nil {
		fmt.Fprintln(os.Stderr, "known-findings.json:", err)
		return 2
	}

	totalShare := 0
	for _, p := range parts {
		if *only != "" && p.Name != *only {
			continue
		}
		totalShare += p.Share
	}
	var results []*PartResult
	exit := 0
	unlisted := 0
	var knownLines, violationLines []string
	for _, ck := range parts {
		if *only != "" && ck.Name != *only {
			continue
		}
		budget := ck.QuickBudget
		maxRuns := ck.QuickMaxRuns
		if *tier == "thorough" {
			budget = ck.ThoroughBudget
			maxRuns = ck.ThoroughMaxRuns
		}
		if budget == 0 {
			budget = 45 * time.Second
			if *tier == "thorough" {
				budget = 15 * time.Minute
			}
		}
		if *budgetF > 0 {
			budget = *budgetF * time.Duration(ck.Share) / time.Duration(totalShare)
		}
		pr, err := RunPart(self, ck, *tier, seed, budget, maxRuns, *workers)
		if err != nil {
			fmt.Printf("HARNESS-ERROR property=%s part=%s: %v\n", *prop, ck.Name, err)
			return 2
		}
		results = append(results, pr)
		fmt.Printf("part %s/%s: runs=%d nontrivial=%d distinct_nontrivial=%d sim_time=%.1fs wall=%.1fs found_classes=%d\n",
			*prop, ck.Name, pr.Runs, pr.Nontrivial, pr.Distinct, float64(pr.SimTimeNs)/1e9, pr.WallS, len(pr.Found))
		if len(pr.Harness) > 0 {
			fmt.Printf("HARNESS-ERROR property=%s part=%s: %s\n", *prop, ck.Name, pr.Harness[0])
			return 2
		}
		if ck.MinRuns > 0 && pr.Runs < ck.MinRuns && pr.Stats["worker-process-crashes"] == 0 {
			fmt.Printf("HARNESS-ERROR property=%s part=%s: only %d runs completed (< %d)\n", *prop, ck.Name, pr.Runs, ck.MinRuns)
			return 2
		}
		// violations: minimise, write replay, verify in a fresh process, classify.
		shrinkBudget := 40 * time.Second
		if *tier == "thorough" {
			shrinkBudget = 5 * time.Minute
		}
		if len(pr.Found) > 1 {
			shrinkBudget /= time.Duration(len(pr.Found))
		}
		for _, f := range pr.Found {
			if strings.HasPrefix(f.Class, CrashClassPrefix) {
				// the code under test killed the process: nothing of this can run in-process
				sig := strings.TrimPrefix(f.Class, CrashClassPrefix)
				kf := MatchKnown(known, *prop, f)
				small, tries := f.Choices, 0
				if kf == nil {
					sbc := shrinkBudget
					if sbc > 2*time.Minute {
						sbc = 2 * time.Minute
					}
					small, tries = ShrinkWith(f.Choices, func(cand []uint32) bool {
						return CrashesFresh(self, ck, *tier, seed, f.Index, cand, sig)
					}, sbc)
				}
				rf := &ReplayFile{Property: *prop, Part: ck.Name, Tier: *tier, Seed: seed, Index: f.Index, Choices: small,
					Violation: Violation{Class: f.Class, Detail: f.Detail}, RepoRev: RepoRev(),
					Shrunk: fmt.Sprintf("choice log %d -> %d entries in %d fresh-process replays", len(f.Choices), len(small), tries)}
				path, err := WriteReplay(filepath.Join(VerifDir(), "replays"), rf)
				if err != nil {
					fmt.Printf("HARNESS-ERROR cannot write replay: %v\n", err)
					return 2
				}
				repro := false
				var out string
				for attempt := 0; attempt < 3 && !repro; attempt++ {
					repro, _, out = VerifyReplayFresh(self, path)
				}
				if !repro && len(small) != len(f.Choices) {
					rf.Choices, rf.Shrunk = f.Choices, "not minimised (the minimised log did not repeat the crash)"
					if path, err = WriteReplay(filepath.Join(VerifDir(), "replays"), rf); err == nil {
						repro, _, out = VerifyReplayFresh(self, path)
					}
				}
				if !repro {
					fmt.Printf("HARNESS-ERROR property=%s part=%s: replay %s does not repeat process crash %q in a fresh process (not reported as a violation)\n%s\n", *prop, ck.Name, path, f.Class, tail(out, 20))
					return 2
				}
				if kf != nil {
					knownLines = append(knownLines, fmt.Sprintf("KNOWN-FINDING: property=%s %s (class=%s, %d worker processes, replay=%s)", *prop, kf.What, f.Class, f.Count, path))
				} else {
					unlisted++
					exit = 1
					violationLines = append(violationLines, fmt.Sprintf("VIOLATION property=%s replay=%s", *prop, path))
					fmt.Printf("violation detail: part=%s class=%s runs=%d\n  %s\n", ck.Name, f.Class, f.Count, f.Detail)
				}
				continue
			}
			kf := MatchKnown(known, *prop, f)
			if pr.Stats["worker-process-crashes"] > 0 || kf != nil {
				// the code under test can kill the process on this tree: nothing is replayed inside
				// the driver; the violation is reported un-minimised after a fresh-process replay.
				// A listed known finding takes the same path: it is never minimised, one replay
				// in a fresh process confirms it (runs of some parts take a minute of CPU each, and
				// the check that runs on every change must stay short).
				why := "not minimised (the code under test kills the process in other runs of this batch; no in-process replays)"
				if pr.Stats["worker-process-crashes"] == 0 {
					why = "not minimised (listed known finding; confirmed by one fresh-process replay)"
				}
				rf := &ReplayFile{Property: *prop, Part: ck.Name, Tier: *tier, Seed: seed, Index: f.Index, Choices: f.Choices,
					Violation: Violation{Class: f.Class, Detail: f.Detail}, TraceDigest: f.Digest, RepoRev: RepoRev(),
					Shrunk: why}
				path, err := WriteReplay(filepath.Join(VerifDir(), "replays"), rf)
				if err != nil {
					fmt.Printf("HARNESS-ERROR cannot write replay: %v\n", err)
					return 2
				}
				repro := false
				var out string
				for attempt := 0; attempt < 3 && !repro; attempt++ {
					repro, _, out = VerifyReplayFresh(self, path)
				}
				if !repro {
					fmt.Printf("HARNESS-ERROR property=%s part=%s: replay %s does not reproduce class %q in a fresh process (harness nondeterminism, not reported as a violation)\n%s\n", *prop, ck.Name, path, f.Class, tail(out, 20))
					return 2
				}
				if kf != nil {
					knownLines = append(knownLines, fmt.Sprintf("KNOWN-FINDING: property=%s %s (class=%s, %d runs, replay=%s)", *prop, kf.What, f.Class, f.Count, path))
				} else {
					unlisted++
					exit = 1
					violationLines = append(violationLines, fmt.Sprintf("VIOLATION property=%s replay=%s", *prop, path))
					fmt.Printf("violation detail: part=%s class=%s runs=%d\n  %s\n", ck.Name, f.Class, f.Count, f.Detail)
				}
				continue
			}
			sb := shrinkBudget
			small, tries := f.Choices, 0
			if kf == nil {
				small, tries = Shrink(ck, *tier, seed, f.Index, f.Choices, f.Class, sb)
			}
			rr, herr := ReplayRun(ck, *tier, seed, f.Index, small, true)
			if herr != "" || !rr.HasClass(f.Class) {
				// the original log must reproduce; fall back to it
				small = f.Choices
				rr, herr = ReplayRun(ck, *tier, seed, f.Index, small, true)
			}
			if herr != "" || !rr.HasClass(f.Class) {
				fmt.Printf("HARNESS-ERROR property=%s part=%s: violation class %q of run %d does not reproduce in-process from its own choice log (harness nondeterminism)\n  detail: %s\n", *prop, ck.Name, f.Class, f.Index, f.Detail)
				return 2
			}
			detail := f.Detail
			for _, v := range rr.Violations {
				if v.Class == f.Class {
					detail = v.Detail
				}
			}
			lines := rr.Lines()
			if len(lines) > 80 {
				lines = lines[len(lines)-80:]
			}
			rf := &ReplayFile{Property: *prop, Part: ck.Name, Tier: *tier, Seed: seed, Index: f.Index, Choices: small,
				Violation: Violation{Class: f.Class, Detail: detail}, TraceDigest: rr.Digest(), RepoRev: RepoRev(),
				Shrunk: fmt.Sprintf("choice log %d -> %d entries in %d replays", len(f.Choices), len(small), tries), TraceTail: lines}
			path, err := WriteReplay(filepath.Join(VerifDir(), "replays"), rf)
			if err != nil {
				fmt.Printf("HARNESS-ERROR cannot write replay: %v\n", err)
				return 2
			}
			// a violation is only reported if it replays in a fresh OS process
			repro := false
			var out string
			for attempt := 0; attempt < 3 && !repro; attempt++ {
				repro, _, out = VerifyReplayFresh(self, path)
			}
			if !repro {
				fmt.Printf("HARNESS-ERROR property=%s part=%s: replay %s does not reproduce class %q in a fresh process (harness nondeterminism, not reported as a violation)\n%s\n", *prop, ck.Name, path, f.Class, tail(out, 20))
				return 2
			}
			// re-match on the minimised detail too: a finding must be matched by both
			kf2 := MatchKnown(known, *prop, Found{Class: f.Class, Detail: detail})
			if kf != nil && kf2 != nil {
				knownLines = append(knownLines, fmt.Sprintf("KNOWN-FINDING: property=%s %s (class=%s, %d runs, replay=%s)", *prop, kf.What, f.Class, f.Count, path))
			} else {
				unlisted++
				exit = 1
				violationLines = append(violationLines, fmt.Sprintf("VIOLATION property=%s replay=%s", *prop, path))
				fmt.Printf("violation detail: part=%s class=%s runs=%d\n  %s\n", ck.Name, f.Class, f.Count, detail)
			}
		}
	}
	wall := time.Since(start).Seconds()
	if !*noEvidence {
		if err := writeEvidence(*prop, *tier, seed, results, wall, unlisted, knownLines); err != nil {
			fmt.Printf("HARNESS-ERROR evidence: %v\n", err)
			return 2
		}
	}
	for _, l := range knownLines {
		fmt.Println(l)
	}
	for _, l := range violationLines {
		fmt.Println(l)
	}
	if exit == 0 {
		fmt.Printf("OK property=%s held on everything explored (%.1fs)\n", *prop, wall)
	}
	return exit
}

func writeEvidence(prop, tier string, seed uint64, results []*PartResult, wall float64, unlisted int, knownLines []string) error {
	level := "exploration"
	var evals, nontriv uint64
	distinct := 0
	faults := map[string]int64{}
	probes := map[string]int64{}
	other := map[string]int64{}
	var simNs int64
	var steps int64
	var rules, real, stub, notInj, assumptions []string
	var samples []interface{}
	var partsInfo []map[string]interface{}
	seen := map[string]bool{}
	add := func(dst *[]string, items []string) {
		for _, it := range items {
			if !seen[it] {
				seen[it] = true
				*dst = append(*dst, it)
			}
		}
	}
	overflow := false
	neverHit := []string{}
	for _, pr := range results {
		ck := pr.Check
		if ck.Level == "fault_enumeration" {
			level = "fault_enumeration"
		}
		evals += pr.Runs
		nontriv += pr.Nontrivial
		distinct += pr.Distinct
		overflow = overflow || pr.FPOverflow
		simNs += pr.SimTimeNs
		steps += pr.Steps
		for k, v := range pr.Stats {
			switch {
			case strings.HasPrefix(k, "fault."):
				faults[ck.Name+":"+strings.TrimPrefix(k, "fault.")] += v
			case strings.HasPrefix(k, "probe."):
				probes[ck.Name+":"+strings.TrimPrefix(k, "probe.")] += v
			default:
				other[ck.Name+":"+k] += v
			}
		}
		rules = append(rules, fmt.Sprintf("[%s] %s", ck.Name, ck.Rule))
		add(&real, ck.Real)
		add(&stub, ck.Stub)
		add(&notInj, ck.FaultsNotInjected)
		add(&assumptions, ck.Assumptions)
		for _, s := range pr.Samples {
			if len(samples) < 3 {
				samples = append(samples, s)
			}
		}
		for _, ep := range ck.ExpectedProbes {
			if pr.Stats["probe."+ep] == 0 {
				neverHit = append(neverHit, ck.Name+":"+ep)
			}
		}
		var classes []string
		for _, f := range pr.Found {
			classes = append(classes, fmt.Sprintf("%s x%d", f.Class, f.Count))
		}
		partsInfo = append(partsInfo, map[string]interface{}{
			"part": ck.Name, "world": ck.World, "runs": pr.Runs, "nontrivial_runs": pr.Nontrivial,
			"distinct_nontrivial": pr.Distinct, "wall_s": pr.WallS, "workers": pr.Workers,
			"runs_per_hour": int64(float64(pr.Runs) / (pr.WallS + 1e-9) * 3600),
			"simulated_time_s": float64(pr.SimTimeNs) / 1e9, "steps": pr.Steps, "violation_classes": classes,
		})
	}
	if len(samples) == 0 {
		samples = append(samples, "no non-trivial run was sampled in this batch")
	}
	rule := strings.Join(rules, " || ") + " || distinct_nontrivial = number of distinct 64-bit fingerprints (hash of the run's sequence of abstract (actor, action, outcome) tokens) among runs in which at least one fault fired or the world flagged a reordering/abort"
	if overflow {
		rule += " (fingerprint sets were capped per worker; the count is a lower bound)"
	}
	zero := []string{}
	for k, v := range probes {
		if v == 0 {
			zero = append(zero, k)
		}
	}
	sort.Strings(zero)
	cov := map[string]interface{}{
		"evaluations":         evals,
		"distinct_nontrivial": distinct,
		"nontrivial_runs":     nontriv,
		"rule":                rule,
		"samples":             samples,
		"faults_fired":        faults,
		"reach_probes":        probes,
		"probes_never_hit":    neverHit,
		"counters":            other,
		"simulated_time_s":    float64(simNs) / 1e9,
		"simulator_steps":     steps,
		"runs_per_hour":       int64(float64(evals) / (wall + 1e-9) * 3600),
		"real_components":     real,
		"stub_components":     stub,
		"faults_not_injected": notInj,
		"parts":               partsInfo,
		"known_findings":      knownLines,
		"repo_rev":            RepoRev(),
		"exhaustive":          false,
	}
	ev := Evidence{PropertyID: prop, Tier: tier, Seed: int64(seed), Level: level, Coverage: cov,
		Assumptions: assumptions, WallS: wall, Violations: unlisted}
	if ev.Assumptions == nil {
		ev.Assumptions = []string{}
	}
	b, err := json.MarshalIndent(ev, "", " ")
	if err != nil {
		return err
	}
	dir := filepath.Join(VerifDir(), "evidence")
	os.MkdirAll(dir, 0o755)
	return os.WriteFile(filepath.Join(dir, prop+".json"), b, 0o644)
}
