package kit

import (
	"time"
)

// Shrink minimises a failing choice log by delta debugging: truncate the tail, zero blocks of
// decreasing size, delete blocks, lower single values — keeping a candidate iff the run still
// shows a violation of the same class. Because choice 0 is always the boring alternative,
// zeroing removes faults and reorderings. Bounded by a wall-clock budget.
func Shrink(ck *Check, tier string, seed, index uint64, choices []uint32, class string, budget time.Duration) (best []uint32, tries int) {
	return ShrinkWith(choices, func(cand []uint32) bool {
		r, herr := ReplayRun(ck, tier, seed, index, cand, false)
		if herr != "" {
			return false
		}
		return r.HasClass(class)
	}, budget)
}

// ShrinkWith is Shrink with a caller-supplied failure test (process crashes are tested in
// fresh OS processes).
func ShrinkWith(choices []uint32, test func(cand []uint32) bool, budget time.Duration) (best []uint32, tries int) {
	deadline := time.Now().Add(budget)
	best = append([]uint32(nil), choices...)
	fails := func(cand []uint32) bool {
		tries++
		return test(cand)
	}
	expired := func() bool { return time.Now().After(deadline) }

	// the run normally consumes fewer/more choices than recorded after edits; first trim to
	// what a faithful replay consumes.
	trimZeros := func(c []uint32) []uint32 {
		n := len(c)
		for n > 0 && c[n-1] == 0 {
			n--
		}
		return c[:n]
	}
	best = trimZeros(best)

	// 1. truncate the tail (binary search for the shortest failing prefix, then refine)
	lo, hi := 0, len(best)
	for lo < hi && !expired() {
		mid := (lo + hi) / 2
		if fails(best[:mid]) {
			hi = mid
		} else {
			lo = mid + 1
		}
	}
	if hi < len(best) && fails(best[:hi]) {
		best = trimZeros(append([]uint32(nil), best[:hi]...))
	}

	changed := true
	for changed && !expired() {
		changed = false
		// 2. zero blocks of decreasing size
		for size := len(best) / 2; size >= 1 && !expired(); size /= 2 {
			for startPos := 0; startPos < len(best) && !expired(); startPos += size {
				end := startPos + size
				if end > len(best) {
					end = len(best)
				}
				allZero := true
				for _, v := range best[startPos:end] {
					if v != 0 {
						allZero = false
						break
					}
				}
				if allZero {
					continue
				}
				cand := append([]uint32(nil), best...)
				for i := startPos; i < end; i++ {
					cand[i] = 0
				}
				if fails(cand) {
					best = trimZeros(cand)
					changed = true
				}
			}
		}
		// 3. delete blocks (shifts later choices; often removes whole operations)
		for size := len(best) / 2; size >= 1 && !expired(); size /= 2 {
			for startPos := 0; startPos+size <= len(best) && !expired(); {
				cand := append(append([]uint32(nil), best[:startPos]...), best[startPos+size:]...)
				if fails(cand) {
					best = trimZeros(cand)
					changed = true
				} else {
					startPos += size
				}
			}
		}
		// 4. lower single values
		for i := 0; i < len(best) && !expired(); i++ {
			if best[i] == 0 {
				continue
			}
			for _, nv := range []uint32{0, 1, best[i] / 2, best[i] - 1} {
				if nv >= best[i] {
					continue
				}
				cand := append([]uint32(nil), best...)
				cand[i] = nv
				if fails(cand) {
					best = trimZeros(cand)
					changed = true
					break
				}
			}
			if i >= len(best) {
				break
			}
		}
	}
	return best, tries
}
