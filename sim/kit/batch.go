package kit

import (
	"encoding/binary"
	"bufio"
	"bytes"
	"encoding/json"
	"fmt"
	"hash/fnv"
	"os"
	"os/exec"
	"path/filepath"
	"regexp"
	"runtime"
	"sort"
	"strconv"
	"strings"
	"sync"
	"time"
)

// Found is a violation found by a worker, with everything needed to replay it.
type Found struct {
	Part    string   `json:"part"`
	Index   uint64   `json:"index"`
	Class   string   `json:"class"`
	Detail  string   `json:"detail"`
	Choices []uint32 `json:"choices"`
	Digest  string   `json:"digest"`
	Count   uint64   `json:"count"` // runs in which this class occurred
}

// Sample is a written-out run for the evidence file.
type Sample struct {
	Part   string   `json:"part"`
	Index  uint64   `json:"run_index"`
	Faults []string `json:"faults_fired"`
	Trace  []string `json:"trace"`
}

// WorkerResult is what one worker process reports.
type WorkerResult struct {
	Runs       uint64           `json:"runs"`
	Nontrivial uint64           `json:"nontrivial"`
	FPs        []uint64         `json:"fps"`
	FPOverflow bool             `json:"fp_overflow"`
	Stats      map[string]int64 `json:"stats"`
	SimTimeNs  int64            `json:"sim_time_ns"`
	Steps      int64            `json:"steps"`
	Found      []Found          `json:"found"`
	Samples    []Sample         `json:"samples"`
	Harness    []string         `json:"harness_errors"`
	WallS      float64          `json:"wall_s"`
}

const maxFPsPerWorker = 400000

func partKey(prop, part string) uint64 {
	h := fnv.New64a()
	h.Write([]byte(prop + "/" + part))
	return h.Sum64()
}

// runStream gives the chooser stream id of run i of a part.
func runStream(ck *Check, index uint64) uint64 { return mix(partKey(ck.Prop, ck.Name), index) }

// OneRun executes run `index` of a batch in generate mode.
func OneRun(ck *Check, tier string, seed, index uint64, keepTrace bool) (*Run, string) {
	c := NewGen(seed, runStream(ck, index))
	r := NewRun(ck.Prop, tier, seed, index, c, keepTrace)
	herr := Execute(ck, r)
	return r, herr
}

// ReplayRun executes a run from a recorded choice log.
func ReplayRun(ck *Check, tier string, seed, index uint64, choices []uint32, keepTrace bool) (*Run, string) {
	c := NewReplay(choices)
	r := NewRun(ck.Prop, tier, seed, index, c, keepTrace)
	herr := Execute(ck, r)
	return r, herr
}

// Worker runs indices worker, worker+of, ... until the budget or run cap is exhausted.
func Worker(ck *Check, tier string, seed uint64, worker, of int, budget time.Duration, maxRuns uint64, samplesWanted int) *WorkerResult {
	start := time.Now()
	res := &WorkerResult{Stats: map[string]int64{}}
	fps := map[uint64]struct{}{}
	found := map[string]*Found{}
	for i := uint64(worker); ; i += uint64(of) {
		if maxRuns > 0 && i >= maxRuns {
			break
		}
		if res.Runs > 0 && time.Since(start) > budget {
			break
		}
		keep := len(res.Samples) < samplesWanted
		// marker for the parent: should the process die inside this run (a panic on a goroutine
		// of the code under test cannot be recovered), it knows which run it was
		fmt.Fprintf(os.Stderr, "RUN-START %d\n", i)
		r, herr := OneRun(ck, tier, seed, i, keep)
		if herr != "" {
			if len(res.Harness) < 3 {
				res.Harness = append(res.Harness, herr)
			}
			res.Runs++
			continue
		}
		res.Runs++
		res.SimTimeNs += int64(r.SimTime)
		res.Steps += r.Steps
		for k, v := range r.Stats {
			res.Stats[k] += v
		}
		if r.IsNontrivial() {
			res.Nontrivial++
			if len(fps) < maxFPsPerWorker {
				fps[r.Fingerprint()] = struct{}{}
			} else {
				res.FPOverflow = true
			}
			if keep {
				var faults []string
				for k, v := range r.Stats {
					if strings.HasPrefix(k, "fault.") && v > 0 {
						faults = append(faults, fmt.Sprintf("%s=%d", strings.TrimPrefix(k, "fault."), v))
					}
				}
				sort.Strings(faults)
				lines := r.Lines()
				if len(lines) > 60 {
					lines = append(append([]string{}, lines[:40]...), fmt.Sprintf("… %d lines omitted …", len(lines)-50))
					lines = append(lines, r.Lines()[len(r.Lines())-10:]...)
				}
				res.Samples = append(res.Samples, Sample{Part: ck.Name, Index: i, Faults: faults, Trace: lines})
			}
		}
		for _, v := range r.Violations {
			f := found[v.Class]
			if f == nil {
				found[v.Class] = &Found{Part: ck.Name, Index: i, Class: v.Class, Detail: v.Detail,
					Choices: append([]uint32(nil), r.C.Log()...), Digest: r.Digest(), Count: 1}
			} else {
				f.Count++
			}
		}
	}
	for fp := range fps {
		res.FPs = append(res.FPs, fp)
	}
	sort.Slice(res.FPs, func(i, j int) bool { return res.FPs[i] < res.FPs[j] })
	var classes []string
	for c := range found {
		classes = append(classes, c)
	}
	sort.Strings(classes)
	for _, c := range classes {
		res.Found = append(res.Found, *found[c])
	}
	res.WallS = time.Since(start).Seconds()
	return res
}

// PartResult is the merged result of all workers of one part.
type PartResult struct {
	Check      *Check
	Runs       uint64
	Nontrivial uint64
	Distinct   int
	FPOverflow bool
	Stats      map[string]int64
	SimTimeNs  int64
	Steps      int64
	Found      []Found
	Samples    []Sample
	Harness    []string
	WallS      float64
	Workers    int
}

// RunPart spawns worker processes (this binary, `worker` sub-command) and merges their reports.
func RunPart(self string, ck *Check, tier string, seed uint64, budget time.Duration, maxRuns uint64, workers int) (*PartResult, error) {
	if ck.Serial {
		workers = 1
	}
	if maxRuns > 0 && uint64(workers) > maxRuns {
		workers = int(maxRuns)
	}
	start := time.Now()
	type out struct {
		res   *WorkerResult
		err   error
		crash *CrashInfo
	}
	outs := make([]out, workers)
	var wg sync.WaitGroup
	for w := 0; w < workers; w++ {
		wg.Add(1)
		go func(w int) {
			defer wg.Done()
			samples := 0
			if w < 2 {
				samples = 1
			}
			cmd := exec.Command(self, "worker",
				"-prop", ck.Prop, "-part", ck.Name, "-tier", tier,
				"-seed", strconv.FormatUint(seed, 10),
				"-worker", strconv.Itoa(w), "-of", strconv.Itoa(workers),
				"-budget", budget.String(), "-maxruns", strconv.FormatUint(maxRuns, 10),
				"-samples", strconv.Itoa(samples))
			cmd.Env = append(os.Environ(), "GOMAXPROCS=2", "GOGC=200")
			var stdout, stderr bytes.Buffer
			cmd.Stdout = &stdout
			cmd.Stderr = &stderr
			done := make(chan error, 1)
			if err := cmd.Start(); err != nil {
				outs[w].err = err
				return
			}
			go func() { done <- cmd.Wait() }()
			// watchdog: a worker may overrun its budget by one run; allow generous slack.
			limit := budget*3 + 5*time.Minute
			select {
			case err := <-done:
				if err != nil {
					if ci := ParseCrash(stderr.String()); ci != nil {
						// the code under test killed the process from one of its own goroutines
						outs[w].crash = ci
						return
					}
					outs[w].err = fmt.Errorf("worker %d: %v\nstderr tail:\n%s", w, err, tail(stderr.String(), 60))
					return
				}
			case <-time.After(limit):
				cmd.Process.Kill()
				outs[w].err = fmt.Errorf("worker %d: watchdog (%v) expired\nstderr tail:\n%s", w, limit, tail(stderr.String(), 60))
				return
			}
			var wr WorkerResult
			// the result is the last line of stdout
			lines := bytes.Split(bytes.TrimSpace(stdout.Bytes()), []byte{'\n'})
			if err := json.Unmarshal(lines[len(lines)-1], &wr); err != nil {
				outs[w].err = fmt.Errorf("worker %d: bad result: %v\nstdout tail:\n%s\nstderr tail:\n%s", w, err, tail(stdout.String(), 10), tail(stderr.String(), 40))
				return
			}
			outs[w].res = &wr
		}(w)
	}
	wg.Wait()
	pr := &PartResult{Check: ck, Stats: map[string]int64{}, Workers: workers}
	fps := map[uint64]struct{}{}
	found := map[string]*Found{}
	crashes := map[string]*CrashInfo{}
	crashCount := map[string]uint64{}
	for w := range outs {
		if outs[w].err != nil {
			return nil, outs[w].err
		}
		if ci := outs[w].crash; ci != nil {
			// what the dead worker had counted is lost; the crash itself is the result
			pr.Stats["worker-process-crashes"]++
			crashCount[ci.Sig]++
			if o := crashes[ci.Sig]; o == nil || ci.Index < o.Index {
				crashes[ci.Sig] = ci
			}
			continue
		}
		r := outs[w].res
		pr.Runs += r.Runs
		pr.Nontrivial += r.Nontrivial
		pr.SimTimeNs += r.SimTimeNs
		pr.Steps += r.Steps
		pr.FPOverflow = pr.FPOverflow || r.FPOverflow
		for k, v := range r.Stats {
			pr.Stats[k] += v
		}
		for _, fp := range r.FPs {
			fps[fp] = struct{}{}
		}
		for i := range r.Found {
			f := r.Found[i]
			if o := found[f.Class]; o == nil {
				found[f.Class] = &f
			} else {
				cnt := o.Count + f.Count
				if f.Index < o.Index {
					found[f.Class] = &f
				}
				found[f.Class].Count = cnt
			}
		}
		pr.Samples = append(pr.Samples, r.Samples...)
		pr.Harness = append(pr.Harness, r.Harness...)
	}
	pr.Distinct = len(fps)
	for sig, ci := range crashes {
		// run the crashing run once more, alone, with a choice journal, to obtain its choice log
		choices, ci2, perr := ProbeCrash(self, ck, tier, seed, ci.Index)
		if perr != nil || ci2 == nil || ci2.Sig != sig {
			got := "no crash"
			if ci2 != nil {
				got = ci2.Sig
			}
			return nil, fmt.Errorf("worker crashed in run %d (%s: %s) but the crash did not repeat when the run was executed alone (got %s, err %v)\nstack:\n%s", ci.Index, sig, ci.Msg, got, perr, strings.Join(ci.Stack, "\n"))
		}
		f := Found{Part: ck.Name, Index: ci.Index, Class: CrashClassPrefix + sig, Choices: choices, Count: crashCount[sig],
			Detail: fmt.Sprintf("the code under test killed the process: %s | %s", ci.Msg, strings.Join(ci.Stack, " < "))}
		found[f.Class] = &f
	}
	var classes []string
	for c := range found {
		classes = append(classes, c)
	}
	sort.Strings(classes)
	for _, c := range classes {
		pr.Found = append(pr.Found, *found[c])
	}
	pr.WallS = time.Since(start).Seconds()
	return pr, nil
}

func tail(s string, n int) string {
	lines := strings.Split(strings.TrimRight(s, "\n"), "\n")
	if len(lines) > n {
		lines = lines[len(lines)-n:]
	}
	return strings.Join(lines, "\n")
}

// ---- known findings ----

// Finding is one entry of /verif/known-findings.json.
type Finding struct {
	Property    string `json:"property"`
	Status      string `json:"status"` // "known" (recorded, unrepaired) or "fixed" (suppresses nothing)
	Class       string `json:"class"`
	DetailRegex string `json:"detail_regex,omitempty"`
	Commit      string `json:"commit,omitempty"`
	What        string `json:"what"`
	Line        string `json:"line,omitempty"`
}

type FindingsFile struct {
	Findings []Finding `json:"findings"`
}

// LoadFindings reads the committed known-findings file (never written at run time).
func LoadFindings(path string) ([]Finding, error) {
	b, err := os.ReadFile(path)
	if os.IsNotExist(err) {
		return nil, nil
	}
	if err != nil {
		return nil, err
	}
	var ff FindingsFile
	if err := json.Unmarshal(b, &ff); err != nil {
		return nil, err
	}
	return ff.Findings, nil
}

// MatchKnown returns the unrepaired known finding a violation corresponds to, if any.
func MatchKnown(fs []Finding, prop string, v Found) *Finding {
	for i := range fs {
		f := &fs[i]
		if f.Status != "known" || f.Property != prop || f.Class != v.Class {
			continue
		}
		if f.DetailRegex != "" {
			re, err := regexp.Compile(f.DetailRegex)
			if err != nil || !re.MatchString(v.Detail) {
				continue
			}
		}
		return f
	}
	return nil
}

// ---- replay files ----

// ReplayFile is the on-disk form of one failing (minimised) run.
type ReplayFile struct {
	Property    string    `json:"property"`
	Part        string    `json:"part"`
	Tier        string    `json:"tier"`
	Seed        uint64    `json:"seed"`
	Index       uint64    `json:"index"`
	Choices     []uint32  `json:"choices"`
	Violation   Violation `json:"violation"`
	TraceDigest string    `json:"trace_digest"`
	RepoRev     string    `json:"repo_rev"`
	Shrunk      string    `json:"shrunk"`
	TraceTail   []string  `json:"trace_tail"`
}

func slug(s string) string {
	var b strings.Builder
	for _, c := range s {
		switch {
		case c >= 'a' && c <= 'z', c >= 'A' && c <= 'Z', c >= '0' && c <= '9':
			b.WriteRune(c)
		default:
			b.WriteByte('-')
		}
	}
	out := b.String()
	if len(out) > 60 {
		out = out[:60]
	}
	return out
}

// WriteReplay stores a replay file under dir and returns its path.
func WriteReplay(dir string, rf *ReplayFile) (string, error) {
	os.MkdirAll(dir, 0o755)
	name := fmt.Sprintf("%s-%s-%s-s%d-i%d.json", rf.Property, slug(rf.Part), slug(rf.Violation.Class), rf.Seed, rf.Index)
	p := filepath.Join(dir, name)
	b, _ := json.MarshalIndent(rf, "", " ")
	return p, os.WriteFile(p, b, 0o644)
}

// ReadReplay loads a replay file.
func ReadReplay(path string) (*ReplayFile, error) {
	b, err := os.ReadFile(path)
	if err != nil {
		return nil, err
	}
	var rf ReplayFile
	if err := json.Unmarshal(b, &rf); err != nil {
		return nil, err
	}
	return &rf, nil
}

// RepoRev describes /repo's revision and whether its working tree is dirty.
func RepoRev() string {
	out, err := exec.Command("git", "-C", "/repo", "rev-parse", "--short", "HEAD").Output()
	if err != nil {
		return "unknown"
	}
	rev := strings.TrimSpace(string(out))
	st, _ := exec.Command("git", "-C", "/repo", "status", "--porcelain", "--untracked-files=no").Output()
	if len(bytes.TrimSpace(st)) > 0 {
		rev += "+dirty"
	}
	return rev
}

// VerifyReplayFresh replays a file in a fresh OS process and reports whether the same
// violation class reproduced with the same trace digest.
func VerifyReplayFresh(self, path string) (reproduced bool, sameDigest bool, output string) {
	cmd := exec.Command(self, "replay", path)
	cmd.Env = append(os.Environ(), "GOMAXPROCS=4")
	out, _ := cmd.CombinedOutput()
	output = string(out)
	if rf, err := ReadReplay(path); err == nil && strings.HasPrefix(rf.Violation.Class, CrashClassPrefix) {
		// a process crash reproduces when the replaying process dies the same death
		ci := ParseCrash(output)
		ok := ci != nil && CrashClassPrefix+ci.Sig == rf.Violation.Class
		return ok, ok, output
	}
	sc := bufio.NewScanner(bytes.NewReader(out))
	for sc.Scan() {
		ln := sc.Text()
		if strings.HasPrefix(ln, "REPLAY reproduced=true") {
			reproduced = true
			sameDigest = strings.Contains(ln, "digest_match=true")
		}
	}
	return
}

// NumWorkers is the default degree of parallelism.
func NumWorkers() int {
	if s := os.Getenv("VERIF_WORKERS"); s != "" {
		if n, err := strconv.Atoi(s); err == nil && n > 0 {
			return n
		}
	}
	n := runtime.NumCPU()
	if n > 16 {
		n = 16
	}
	return n
}

// ---- process crashes of the code under test ----

// CrashClassPrefix starts the violation class of a run in which the code under test killed
// the whole process (an unrecovered panic on a goroutine it started itself).
const CrashClassPrefix = "process-crash:"

const repoModule = "github.com/youchainhq/go-youchain/"

// CrashInfo describes a worker process that died of a Go panic on a goroutine of the code
// under test.
type CrashInfo struct {
	Index uint64   // the run that was executing (last RUN-START marker)
	Sig   string   // innermost function of the code under test on the panicking goroutine
	Msg   string   // the panic message
	Stack []string // the code-under-test frames of the panicking goroutine, innermost first
}

// ParseCrash recognises, in a dead worker's stderr, a Go panic whose goroutine consists of
// frames of the code under test only (no simulator frame: a goroutine the code started
// itself, which the simulator cannot wrap in a recover). Anything else is not a crash of the
// code under test and stays a harness error.
func ParseCrash(stderr string) *CrashInfo {
	lines := strings.Split(stderr, "\n")
	ci := &CrashInfo{}
	haveIdx := false
	pan := -1
	for i, ln := range lines {
		if strings.HasPrefix(ln, "RUN-START ") {
			if n, err := strconv.ParseUint(strings.TrimSpace(strings.TrimPrefix(ln, "RUN-START ")), 10, 64); err == nil {
				ci.Index, haveIdx = n, true
			}
		}
		if pan < 0 && (strings.HasPrefix(ln, "panic: ") || strings.HasPrefix(ln, "fatal error: ")) {
			pan = i
		}
	}
	if pan < 0 {
		return nil
	}
	_ = haveIdx
	ci.Msg = strings.TrimSpace(lines[pan])
	// the first goroutine block after the panic line is the panicking goroutine
	g := -1
	for i := pan + 1; i < len(lines); i++ {
		if strings.HasPrefix(lines[i], "goroutine ") {
			g = i
			break
		}
	}
	if g < 0 {
		return nil
	}
	for i := g + 1; i < len(lines); i++ {
		ln := lines[i]
		if strings.TrimSpace(ln) == "" {
			break
		}
		if strings.HasPrefix(ln, "\t") {
			continue // file:line of the frame above
		}
		fn := ln
		if strings.HasPrefix(fn, "created by ") {
			fn = strings.TrimPrefix(fn, "created by ")
			if j := strings.Index(fn, " in goroutine"); j >= 0 {
				fn = fn[:j]
			}
		} else if j := strings.LastIndex(fn, "("); j > 0 {
			fn = fn[:j]
		}
		if strings.HasPrefix(fn, "verifsim/") || strings.Contains(fn, "/verifsim/") || strings.HasPrefix(fn, "testing.") || strings.HasPrefix(fn, "internal/synctest") {
			return nil // a goroutine the simulator owns (or the bubble's root): not a crash of the code under test
		}
		if strings.HasPrefix(fn, repoModule) {
			ci.Stack = append(ci.Stack, strings.TrimPrefix(fn, repoModule))
		}
	}
	if len(ci.Stack) == 0 {
		return nil
	}
	ci.Sig = ci.Stack[0]
	if len(ci.Stack) > 6 {
		ci.Stack = ci.Stack[:6]
	}
	return ci
}

// ProbeCrash executes one run alone in a fresh process with a choice journal and returns the
// choices it made before it died, together with how it died.
func ProbeCrash(self string, ck *Check, tier string, seed, index uint64) ([]uint32, *CrashInfo, error) {
	jf, err := os.CreateTemp("", "vcheck-journal-*")
	if err != nil {
		return nil, nil, err
	}
	jf.Close()
	defer os.Remove(jf.Name())
	cmd := exec.Command(self, "crashprobe", "-prop", ck.Prop, "-part", ck.Name, "-tier", tier,
		"-seed", strconv.FormatUint(seed, 10), "-index", strconv.FormatUint(index, 10), "-journal", jf.Name())
	cmd.Env = append(os.Environ(), "GOMAXPROCS=2")
	out, _ := cmd.CombinedOutput()
	b, err := os.ReadFile(jf.Name())
	if err != nil {
		return nil, nil, err
	}
	choices := make([]uint32, 0, len(b)/4)
	for i := 0; i+4 <= len(b); i += 4 {
		choices = append(choices, binary.LittleEndian.Uint32(b[i:]))
	}
	return choices, ParseCrash(string(out)), nil
}

// CrashesFresh reports whether replaying the choice log in a fresh process dies with the
// given crash signature (the failure test used to minimise a process crash).
func CrashesFresh(self string, ck *Check, tier string, seed, index uint64, choices []uint32, sig string) bool {
	dir, err := os.MkdirTemp("", "vcheck-crashshrink-*")
	if err != nil {
		return false
	}
	defer os.RemoveAll(dir)
	rf := &ReplayFile{Property: ck.Prop, Part: ck.Name, Tier: tier, Seed: seed, Index: index, Choices: choices,
		Violation: Violation{Class: CrashClassPrefix + sig}}
	path, err := WriteReplay(dir, rf)
	if err != nil {
		return false
	}
	ok, _, _ := VerifyReplayFresh(self, path)
	return ok
}
