package kit

import (
	"crypto/sha256"
	"encoding/hex"
	"fmt"
	"hash"
	"hash/fnv"
	"runtime/debug"
	"sort"
	"strings"
	"time"
)

// Violation is one property violation observed in a run. Class identifies the kind of
// failure (stable across seeds, used for shrinking, replay comparison and known-findings
// matching); Detail carries the concrete values.
type Violation struct {
	Class  string `json:"class"`
	Detail string `json:"detail"`
}

// Run is the context handed to a world for one simulated execution.
type Run struct {
	Prop  string
	Tier  string
	Seed  uint64 // batch seed (VERIF_SEED)
	Index uint64 // run index inside the batch
	C     *Chooser
	Cfg   map[string]string // per-check configuration from the registry / replay file

	Violations []Violation
	Stats      map[string]int64 // fault-kind counters ("fault.*"), reach probes ("probe.*"), sizes
	SimTime    time.Duration    // simulated time covered
	Steps      int64

	trace     hash.Hash
	fp        hash.Hash64
	nontriv   bool
	keepTrace bool
	lines     []string
	maxLines  int
	fatal     bool
}

// NewRun builds a run context.
func NewRun(prop, tier string, seed, index uint64, c *Chooser, keepTrace bool) *Run {
	return &Run{Prop: prop, Tier: tier, Seed: seed, Index: index, C: c,
		Stats: map[string]int64{}, trace: sha256.New(), fp: fnv.New64a(),
		keepTrace: keepTrace, maxLines: 4000, Cfg: map[string]string{}}
}

// Logf appends one event to the run's trace. Never draws from the chooser, never reads a clock.
func (r *Run) Logf(format string, a ...interface{}) {
	s := fmt.Sprintf(format, a...)
	r.trace.Write([]byte(s))
	r.trace.Write([]byte{'\n'})
	if r.keepTrace && len(r.lines) < r.maxLines {
		r.lines = append(r.lines, s)
	}
}

// FP folds an abstract token (actor, action kind, abstracted outcome) into the run's
// fingerprint, the measure of "distinct interleavings/states reached".
func (r *Run) FP(tokens ...string) {
	for _, t := range tokens {
		r.fp.Write([]byte(t))
		r.fp.Write([]byte{0})
	}
}

// Fault counts a fault that actually fired and marks the run non-trivial.
func (r *Run) Fault(kind string) {
	r.Stats["fault."+kind]++
	r.nontriv = true
}

// Probe counts a reach probe ("this rare condition was hit").
func (r *Run) Probe(name string) { r.Stats["probe."+name]++ }

// Count adds to a free-form counter.
func (r *Run) Count(name string, n int64) { r.Stats[name] += n }

// Nontrivial marks the run as non-trivial without counting a fault.
func (r *Run) Nontrivial() { r.nontriv = true }

// Report records a violation and lets the run continue (so that one known finding does not
// mask a different violation later in the same run). At most one violation per class is kept.
func (r *Run) Report(class, format string, a ...interface{}) {
	for _, v := range r.Violations {
		if v.Class == class {
			return
		}
	}
	d := fmt.Sprintf(format, a...)
	if len(d) > 2000 {
		d = d[:2000] + "…"
	}
	r.Violations = append(r.Violations, Violation{Class: class, Detail: d})
	r.Logf("VIOLATION %s: %s", class, d)
}

// abortRun is the panic payload used by Fail.
type abortRun struct{}

// Fail records a violation and ends the run (for states after which continuing is meaningless).
func (r *Run) Fail(class, format string, a ...interface{}) {
	r.Report(class, format, a...)
	r.fatal = true
	panic(abortRun{})
}

// Abort ends the run without a violation (e.g. a generator dead end).
func (r *Run) Abort() { panic(abortRun{}) }

// Digest is the SHA-256 of the full trace.
func (r *Run) Digest() string { return hex.EncodeToString(r.trace.Sum(nil))[:32] }

// Fingerprint is the 64-bit hash of the abstract action sequence.
func (r *Run) Fingerprint() uint64 { return r.fp.Sum64() }

// IsNontrivial reports whether a fault fired or the world flagged the run.
func (r *Run) IsNontrivial() bool { return r.nontriv }

// Lines returns the kept trace lines.
func (r *Run) Lines() []string { return r.lines }

// HasClass reports whether a violation of that class was recorded.
func (r *Run) HasClass(class string) bool {
	for _, v := range r.Violations {
		if v.Class == class {
			return true
		}
	}
	return false
}

// Check is one registered property check.
type Check struct {
	Prop  string
	World string
	// Level is "exploration" or "fault_enumeration".
	Level string
	// Rule describes generation and what makes a run non-trivial/distinct (evidence).
	Rule string
	// Real / Stub list which components ran real code and which were simulator stand-ins.
	Real, Stub []string
	// FaultsNotInjected lists fault kinds deliberately absent, with reasons.
	FaultsNotInjected []string
	Assumptions       []string
	// Budget gives the wall-clock batch budget and per-run caps per tier.
	QuickBudget, ThoroughBudget time.Duration
	// MaxRuns caps the number of runs per tier (0 = unlimited within budget).
	QuickMaxRuns, ThoroughMaxRuns uint64
	// MinRuns is the number of runs that must complete for the batch to count (else exit 2).
	MinRuns uint64
	// Exec performs one run. It must be a pure function of r.C (and r.Seed/r.Index via
	// NewStream), must recover nothing itself: panics are turned into violations by Execute
	// unless PanicIsHarness is set.
	Exec func(r *Run)
	// PanicClass, if set, maps a recovered panic to a violation class ("" = harness error).
	PanicClass func(v interface{}, stack string) string
	// Name distinguishes the parts of a property decided by several sub-checks (different
	// worlds); each part is run as its own batch and the evidence merges them.
	Name string
	// Share is this part's share of the property's wall-clock budget (default 1).
	Share int
	// ExpectedProbes names reach probes the author cares about; the evidence lists those
	// that never fired in a batch ("probes_never_hit") so that a workload or fault mix
	// that no longer reaches a condition is visible.
	ExpectedProbes []string
	// Serial forces one worker (for worlds that use process-global state heavily and are cheap).
	Serial bool
}

// Execute performs one run with panic containment and returns harness errors separately.
func Execute(ck *Check, r *Run) (harnessErr string) {
	defer func() {
		if v := recover(); v != nil {
			if _, ok := v.(abortRun); ok {
				return
			}
			stack := string(debug.Stack())
			if bp, ok := v.(*BubblePanic); ok {
				v, stack = bp.Val, bp.Stack
			}
			cls := ""
			if ck.PanicClass != nil {
				cls = ck.PanicClass(v, stack)
			}
			if cls == "" {
				harnessErr = fmt.Sprintf("panic in run %d: %v\n%s", r.Index, v, stack)
				return
			}
			r.Report(cls, "panic: %v | %s", v, shortStack(stack))
		}
	}()
	ck.Exec(r)
	return ""
}

// shortStack keeps the frames of the code under test (for violation details) compactly.
func shortStack(stack string) string {
	var out []string
	for _, ln := range strings.Split(stack, "\n") {
		ln = strings.TrimSpace(ln)
		if j := strings.Index(ln, "/repo/"); j >= 0 && !strings.Contains(ln, "/verif/") {
			if i := strings.Index(ln, " +0x"); i > 0 {
				ln = ln[:i]
			}
			out = append(out, ln[j+len("/repo/"):])
			if len(out) >= 6 {
				break
			}
		}
	}
	return strings.Join(out, " < ")
}

// PanicInRepo classifies a panic as a violation of class cls when the panicking stack passes
// through code under /repo before reaching the harness; otherwise harness error.
func PanicInRepo(cls string) func(v interface{}, stack string) string {
	return func(v interface{}, stack string) string {
		// the first non-runtime frame decides
		lines := strings.Split(stack, "\n")
		for _, ln := range lines {
			ln = strings.TrimSpace(ln)
			if !strings.HasPrefix(ln, "/") {
				continue
			}
			if strings.Contains(ln, "/runtime/") || strings.Contains(ln, "kit/run.go") || strings.Contains(ln, "kit/bubble.go") || strings.Contains(ln, "/src/") || strings.Contains(ln, "/pkg/mod/") {
				continue
			}
			// /repo/... on the real tree, /tmp/mutant.*/repo/... under mutant.sh
			if strings.HasPrefix(ln, "/repo/") || strings.Contains(ln, "/repo/") && !strings.Contains(ln, "/verif/") {
				return cls
			}
			return ""
		}
		return ""
	}
}

var registry = map[string][]*Check{}

// Register adds a check (or one part of a property's check) to the registry.
func Register(ck *Check) {
	for _, o := range registry[ck.Prop] {
		if o.Name == ck.Name {
			panic("duplicate check " + ck.Prop + "/" + ck.Name)
		}
	}
	if ck.Share <= 0 {
		ck.Share = 1
	}
	registry[ck.Prop] = append(registry[ck.Prop], ck)
}

// Lookup finds the parts of a property's check, ordered by name.
func Lookup(prop string) []*Check {
	ps := append([]*Check(nil), registry[prop]...)
	sort.Slice(ps, func(i, j int) bool { return ps[i].Name < ps[j].Name })
	return ps
}

// LookupPart finds one part.
func LookupPart(prop, name string) *Check {
	for _, c := range registry[prop] {
		if c.Name == name {
			return c
		}
	}
	return nil
}

// Props lists registered property ids.
func Props() []string {
	var ps []string
	for p := range registry {
		ps = append(ps, p)
	}
	sort.Strings(ps)
	return ps
}
