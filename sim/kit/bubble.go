package kit

import (
	"fmt"
	"runtime/debug"
	"testing"
	"testing/synctest"
)

// T is the *testing.T of the vcheck test binary; synctest needs one to open a bubble.
var T *testing.T

// Bubble runs f inside a testing/synctest bubble: all of package time runs on a fake clock
// that advances only when every goroutine of the bubble is durably blocked, and Wait()
// returns when the bubble is quiescent. Everything the run uses must be created inside f.
// f must stop all goroutines it (or the code under test) started before returning; if blocked
// goroutines remain, synctest panics at the end of the bubble and that panic is returned as
// err (the world decides whether that is a harness bug or acceptable leftover).
func Bubble(f func()) (err error) {
	if T == nil {
		panic("kit.Bubble: no *testing.T (binary not built with `go test -c`?)")
	}
	var inner interface{}
	func() {
		defer func() {
			if v := recover(); v != nil {
				err = fmt.Errorf("bubble: %v", v)
			}
		}()
		synctest.Test(T, func(t *testing.T) {
			defer func() {
				// panics of f (abortRun, genuine panics) must travel to Execute, not kill
				// the test goroutine: carry them out of the bubble.
				if v := recover(); v != nil {
					if _, ok := v.(abortRun); ok {
						inner = v
					} else if bp, ok := v.(*BubblePanic); ok {
						inner = bp
					} else {
						// keep the stack of the panicking goroutine: Execute classifies
						// panics by their first non-runtime frame
						inner = &BubblePanic{Val: v, Stack: string(debug.Stack())}
					}
				}
			}()
			f()
		})
	}()
	if inner != nil {
		panic(inner)
	}
	return err
}

// BubblePanic carries a panic (and the stack it happened on) out of a bubble.
type BubblePanic struct {
	Val   interface{}
	Stack string
}

func (b *BubblePanic) String() string { return fmt.Sprint(b.Val) }

// Wait blocks until every other goroutine in the current bubble is durably blocked.
func Wait() { synctest.Wait() }
