// Command vcheck is the single simulator binary: run | worker | replay | determinism | list.
//
// It is built with `go test -c` because testing/synctest (fake clock + quiescence detection,
// Go 1.26) can only open a bubble from a *testing.T. TestMain turns the test binary back into
// an ordinary command line tool: the user's arguments are stashed, the testing flags are set
// so that exactly TestVcheck runs without a timeout, and TestVcheck hands its T to kit.
package main

import (
	"os"
	"testing"

	"verifsim/kit"

	_ "verifsim/worlds/stateworld"
	_ "verifsim/worlds/votedbworld"
	_ "verifsim/worlds/networld"
	_ "verifsim/worlds/c11world"
	_ "verifsim/worlds/voterworld"
	_ "verifsim/worlds/c01world"
	_ "verifsim/worlds/c17world"
	_ "verifsim/worlds/poolworld"
	_ "verifsim/worlds/evmworld"
	_ "verifsim/worlds/c05world"
	_ "verifsim/worlds/trieworld"
	_ "verifsim/worlds/dlqworld"
	_ "verifsim/worlds/versionworld"
	_ "verifsim/worlds/stakechainworld"
	_ "verifsim/worlds/c14chainworld"
	_ "verifsim/worlds/c14syncworld"
)

var userArgs []string

func TestMain(m *testing.M) {
	userArgs = os.Args[1:]
	os.Args = []string{os.Args[0], "-test.run=^TestVcheck$", "-test.timeout=0", "-test.count=1"}
	os.Exit(m.Run())
}

func TestVcheck(t *testing.T) {
	kit.T = t
	os.Args = append([]string{os.Args[0]}, userArgs...)
	kit.Main()
	os.Exit(0)
}
