// Command vcheck is the single simulator binary: run | worker | replay | determinism | list.
package main

import (
	"verifsim/kit"

	_ "verifsim/worlds/stateworld"
)

func main() { kit.Main() }
