#!/usr/bin/env python3
"""Rewrites the seeded-change table inside DESIGN.md §9.4 (between SEEDED-TABLE markers) from seeded/*/meta.json."""
import json,glob,os,re
p='/verif/DESIGN.md'
s=open(p).read()
rows=[]
for d in sorted(glob.glob('/verif/seeded/S*')):
    m=json.load(open(os.path.join(d,'meta.json')))
    o=m['our_check']; h=m.get('history',[])
    first=('caught' if o['caught'] else 'MISSED') if not h else ('MISSED' if not h[0].get('caught') else 'caught')
    cls=re.sub(r' runs=\d+','',o['classes'].replace('class=','')).split()
    rows.append("| %s | %s | %s | %s | %s |"%(m['id'],m['breaks_property'],first,'caught' if o['caught'] else 'MISSED',', '.join(cls[:3])+(' …' if len(cls)>3 else '')))
table="<!-- SEEDED-TABLE-BEGIN -->\n| seeded change | property | first quick run | now | violation classes reported |\n|---|---|---|---|---|\n"+"\n".join(rows)+"\n<!-- SEEDED-TABLE-END -->"
a=s.index('<!-- SEEDED-TABLE-BEGIN -->'); b=s.index('<!-- SEEDED-TABLE-END -->')+len('<!-- SEEDED-TABLE-END -->')
open(p,'w').write(s[:a]+table+s[b:])
print(len(rows),"rows")
