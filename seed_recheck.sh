#!/bin/bash
# usage: seed_recheck.sh <seeded-id> <note> [tier] [extra vcheck flags] — re-runs our check against a kept seeded change after the
# check was strengthened; the previous result moves to meta.json "history" together with <note>.
set -u
ID="$1"; NOTE="$2"; TIER="${3:-quick}"; shift 2; [ $# -gt 0 ] && shift
D=/verif/seeded/$ID
PROP=$(python3 -c "import json;print(json.load(open('$D/meta.json'))['breaks_property'])")
start=$(date +%s)
out=$(/verif/mutant.sh "$D/patch.diff" "$PROP" "$TIER" "$@" 2>&1)
echo "$out" | grep -v "^\s" | cut -c1-400 | tail -40 > "$D/check-output.txt"
rc=$(echo "$out" | grep -o 'MUTANT-RESULT.*exit=[0-9]*' | grep -o '[0-9]*$')
classes=$(echo "$out" | grep -o 'class=[^ ]* runs=[0-9]*' | tr '\n' ' ')
wall=$(( $(date +%s)-start ))
python3 - "$D" "${rc:-?}" "$classes" "$wall" "$TIER" "$NOTE" "$ID" <<'PY'
import json,sys,os
d,rc,classes,wall,tier,note,id_=sys.argv[1:8]
p=os.path.join(d,'meta.json'); m=json.load(open(p))
h=m.setdefault('history',[])
prev=dict(m['our_check']); prev['then']=note
h.append(prev)
m['our_check']={"cmd":"./mutant.sh seeded/%s/patch.diff %s %s"%(id_,m['breaks_property'],tier),"exit":rc,"caught":rc=="1","classes":classes.strip(),"wall_s":int(wall)}
json.dump(m,open(p,'w'),indent=1)
print(json.dumps(m['our_check']))
PY
